#!/bin/sh
# developer aid: confirm a sub-agent's seeded change in its scratch worktree, then file it under /verif/seeded/
# usage: confirm_seed.sh C05 A [cargo-test-extra-args]
id=$1; v=$2; extra=$3
wt=/tmp/mut/${PFX}$id; src=/tmp/mut/${PFX}$id-out/$v
lv=$(echo $v | tr 'AB' 'ab')
cd $wt || exit 2
git checkout -q -- . ; rm -f tests/demo_*.rs examples/demo_*.rs
git apply --check $src/patch.diff || { echo "patch does not apply"; exit 2; }
mkdir -p tests; cp $src/demo.rs tests/demo_$lv.rs
base=$(cargo test --offline $extra --test demo_$lv 2>&1 | grep -E "^test result" | tail -1)
git apply $src/patch.diff
suite=$(cargo test --workspace --no-fail-fast --offline 2>&1 | grep -E "^test result: .* 1229 passed" | head -1)
# the workspace run also builds tests/demo_*: hide it from the suite count by looking only at the lib line
mut=$(cargo test --offline $extra --test demo_$lv 2>&1 | grep -E "^test result|panicked|error\[" | tail -1)
git checkout -q -- . ; rm -f tests/demo_$lv.rs; rmdir tests 2>/dev/null
echo "$id/$v  clean: [$base]  suite-with-change: [$suite]  demo-with-change: [$mut]"
