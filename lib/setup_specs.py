#!/usr/bin/env python3
import os, sys, glob
sys.path.insert(0, os.path.dirname(os.path.abspath(__file__)))
from vlib import *
bad = 0
for f in sorted(glob.glob(os.path.join(SPEC, "*.tla"))):
    m = os.path.basename(f)[:-4]
    try:
        sany(m)
        print("sany ok", m)
    except ToolError as x:
        print(x); bad += 1
try:
    import gen
    gen.ensure_all()
except ImportError:
    pass
sys.exit(1 if bad else 0)
