import p_cards, p_eval

CHECKS = {}
for m in (p_cards, p_eval):
    CHECKS.update(m.CHECKS)
