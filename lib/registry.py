import p_cards, p_eval, p_showdown, p_flop, p_scopes

CHECKS = {}
for m in (p_cards, p_eval, p_showdown, p_flop, p_scopes):
    CHECKS.update(m.CHECKS)
