import p_cards, p_eval, p_showdown, p_flop, p_scopes, p_sym, p_workers

CHECKS = {}
for m in (p_cards, p_eval, p_showdown, p_flop, p_scopes, p_sym, p_workers):
    CHECKS.update(m.CHECKS)
