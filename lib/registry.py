import p_cards, p_eval, p_showdown, p_flop, p_scopes, p_sym, p_workers, p_notation, p_fmt, p_system

CHECKS = {}
for m in (p_cards, p_eval, p_showdown, p_flop, p_scopes, p_sym, p_workers, p_notation, p_fmt, p_system):
    CHECKS.update(m.CHECKS)
