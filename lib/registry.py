import p_cards

CHECKS = {}
CHECKS.update(p_cards.CHECKS)
