import p_cards, p_eval, p_showdown, p_flop

CHECKS = {}
for m in (p_cards, p_eval, p_showdown, p_flop):
    CHECKS.update(m.CHECKS)
