#!/bin/sh
# developer aid: the quick suite under several seeds (flakiness / false-alarm hunt)
cd "$(dirname "$0")/.."
for seed in "$@"; do
  for p in C13 C14 C01 C07 C03 C02 C08 C04 C16 C11 C15 C05 C09 C10 C12 C06 C17 SYS; do
    out=$(VERIF_SEED=$seed timeout 3600 ./check $p --tier quick 2>&1); rc=$?
    echo "seed=$seed $p rc=$rc :: $(echo "$out" | grep -E '^== .* (ok|FAILED)|^TOOL-ERROR|^VIOLATION' | head -2 | tr '\n' ' ' | cut -c1-220)"
  done
done
