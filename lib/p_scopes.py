"""C04 (scoped evaluators tile the enumeration) and C16 (the example's work splitter tiles for every worker count)."""
import json
from vlib import *


def _short(e, n=300):
    ev = json.loads(e)
    for k in ("items", "runs", "ranges"):
        if k in ev:
            ev[k] = "<%d>" % len(ev[k])
    return json.dumps(ev)[:n]


def _apalache_poswalk(chk):
    """optional extra: the position walk for an arbitrary deck size, inductive invariant + forward progress, with Apalache"""
    import shutil as _sh
    if not _sh.which("apalache-mc"):
        chk.note("Apalache not available: unbounded position-walk argument skipped")
        return
    outdir = chk.path("apalache")
    runs = [("Init", "IndInv", 0), ("IndInit", "IndInv", 1), ("IndInit", "Forward", 1)]
    t = time.time()
    for init, inv, length in runs:
        rc, out = run(["apalache-mc", "check", "--out-dir=" + outdir, "--cinit=ConstInit", "--init=" + init, "--inv=" + inv, "--length=%d" % length, "PosWalk.tla"],
                      cwd=os.path.join(SPEC, "apalache"), timeout=900)
        if "EXITCODE: OK" not in out:
            raise ToolError("Apalache: %s / %s not established for spec/apalache/PosWalk.tla\n%s" % (init, inv, out[-1500:]))
    chk.parts["apalache_poswalk"] = {"obligations": len(runs), "wall_s": round(time.time() - t, 1)}
    chk.note("Apalache: position walk for every deck size 3..60: IndInv initial and inductive, every step strictly forwards (%.0fs)" % (time.time() - t))


def c04(chk, opts):
    thorough = chk.tier == "thorough"
    build("release")
    if thorough:
        _apalache_poswalk(chk)
    r = tlc("MCScopes", timeout=900, heap="6g")
    chk.add_tlc(r, "MCScopes(tiling theorem, D=4)")
    r = tlc("MCFlop", cfg="MCFlopScopes.cfg", timeout=3600, heap="12g")
    chk.add_tlc(r, "MCFlop(all scopes in the tail window)")
    trace = chk.path("c04.ndjson")
    hx(["c04", "--seed", chk.seed, "--thorough", 1 if thorough else 0, "--out", trace])
    r, events, bad = validate_independent(chk, "TraceScope", trace, "TraceScope(real size)", heap="10g", timeout=3000)
    counts = {}
    for e in events:
        op = e[7:e.index('"', 7)]
        counts[op] = counts.get(op, 0) + 1
    if counts.get("scoped", 0) < 1176 * 2 or counts.get("chain", 0) < 10:
        raise ToolError("recorder produced too few events: %s" % counts)
    for i in bad:
        ev = json.loads(events[i - 1])
        ref = json.loads(events[ev["ref"] - 1]) if "ref" in ev else ev
        sig = {"op": ev["op"], "flop": ref["flop"], "scopes": ev.get("scopes"), "cuts": ev.get("cuts")}
        chk.violation("%s run differs from the window of the unscoped run: %s (configuration %s)" % (ev["op"], _short(events[i - 1]), _short(events[ev.get("ref", i) - 1], 200)),
                      sig, {"gen": ["c04"], "event": {k: ev[k] for k in ev if k not in ("items", "runs")},
                            "cfg": {k: ref[k] for k in ("flop", "ranges")}, "items": ev.get("items", ev.get("runs"))})
    for i in (0, 5, 700, len(events) - 1):
        chk.sample(_short(events[i], 500))
    if opts.get("selftest"):
        _selftest(chk, events)
    chk.exhaustive = False
    return chk.finish(rule="per configuration (the suite's Jh9d3c/As4h/Td8c plus random 1-3 player ones): the unscoped run, then one scoped run from EVERY one of the "
                           "1176 start positions (ends: same position, next rollover, random distance, terminal), ends adjacent to every rollover, repeated scope() "
                           "calls, 3 further next() calls after None, random chains of 2-18 cuts incl. empty scopes; TLC compares each with the window of the unscoped run",
                      extra={"event_counts": counts})


def _selftest(chk, events):
    muts = [events[0]]
    k = 0
    for e in events[1:]:
        ev = json.loads(e)
        if ev["op"] == "scoped" and len(ev["items"]) >= 2 and ev["ref"] == 1:
            a = dict(ev); a["items"] = ev["items"][1:]; muts.append(json.dumps(a))                 # first showdown missing
            b = dict(ev); b["items"] = ev["items"] + [ev["items"][-1]]; muts.append(json.dumps(b))   # duplicate at the end
            c = dict(ev); c["after"] = 1; muts.append(json.dumps(c))                                 # revived after None
            k += 1
            if k >= 3:
                break
    p = chk.path("selftest.ndjson")
    open(p, "w").write("\n".join(muts) + "\n")
    r = tlc("TraceScope", env={"TRACE": p}, workers=2, heap="4g")
    if len(r.bad) != len(muts) - 1:
        raise ToolError("selftest: %d corrupted events, %d rejected" % (len(muts) - 1, len(r.bad)))
    chk.note("selftest: %d corrupted scoped runs all rejected" % (len(muts) - 1))


def c16(chk, opts):
    thorough = chk.tier == "thorough"
    build("release")
    r = tlc("MCScopes", timeout=900, heap="6g")
    chk.add_tlc(r, "MCScopes(ValidChain => tiling, D=4)")
    trace = chk.path("c16.ndjson")
    hx(["c16", "--seed", chk.seed, "--max", 1024 if thorough else 600, "--samples", 400 if thorough else 100, "--out", trace])
    r, events, bad = validate_independent(chk, "TraceScope", trace, "TraceScope(calculate_scopes)", heap="8g", timeout=3000)
    for i in bad:
        ev = json.loads(events[i - 1])
        if ev["op"] == "scopes":
            invalid = [x[:2] for x in ev["tos"] if not ((x[0] < x[1] and x[1] <= 48) or (x[0], x[1]) == (48, 49))]
            chk.violation("calculate_scopes(%d) is not a valid chain%s: end points %s" % (ev["n"], (" (cut point %s is not a position)" % invalid[0]) if invalid else "", json.dumps(ev["tos"])[:300]),
                          {"op": "scopes", "n": ev["n"]}, {"gen": ["c16"], "event": ev})
        else:
            chk.violation("chain of calculate_scopes run on the real evaluator does not add up to the unscoped run: cuts %s" % ev.get("cuts"),
                          {"op": "chain", "cuts": ev.get("cuts")}, {"gen": ["c16"], "event": {k: ev[k] for k in ev if k != "runs"}})
    ns = sum(1 for e in events if e.startswith('{"op":"scopes"'))
    chains = sum(1 for e in events if e.startswith('{"op":"chain"'))
    for i in (0, 3, 16, 200):
        chk.sample(_short(events[i], 400))
    chk.exhaustive = False
    chk.assumptions = ["worker counts: every n up to the bound plus random larger ones; the f32 arithmetic inside calculate_scopes is observed, not modelled"]
    return chk.finish(rule="calculate_scopes(n) (example source compiled into the harness by path) for every n in 1..bound and sampled n up to 2^20, validated by TLC as a "
                           "ValidChain of n scopes; for sampled n the chain is executed on the real evaluator and compared with the unscoped run",
                      extra={"worker_counts": ns, "chains_executed": chains})


CHECKS = {"C04": c04, "C16": c16}
