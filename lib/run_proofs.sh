#!/bin/sh
# Developer aid (optional extra, not registered in MANIFEST.json): re-check the TLAPS proofs under spec/proofs.
# Exit 0 when every obligation is proved.
cd "$(dirname "$0")/../spec/proofs" || exit 2
rc=0
for m in LinOrder TilingLemma ShowdownPass PosWalkProof; do
  out=$(timeout 600 tlapm --threads 8 --cleanfp $m.tla 2>&1 | grep -E "obligations (proved|failed)|Error" | tail -1)
  echo "$m: $out"
  case "$out" in *"All "*" obligations proved."*) ;; *) rc=1;; esac
done
rm -rf .tlacache
exit $rc
