#!/usr/bin/env python3
"""Developer tool (never registered in MANIFEST.json): apply a seeded change to /repo's working tree, run the
quick checks of the properties it is supposed to break (and optionally others), undo it, report.

  lib/muttest.py seeded/<dir> [--also C02,C03] [--tier quick]
  lib/muttest.py --all seeded            (every directory below that holds a patch.diff)

A seeded directory holds patch.diff and meta.json ({"breaks": "C05" or "C02,C08" or "benign", ...})."""
import json, os, subprocess, sys, time, glob

V = os.path.dirname(os.path.dirname(os.path.abspath(__file__)))
REPO = "/repo"


def sh(cmd, **kw):
    return subprocess.run(cmd, shell=True, stdout=subprocess.PIPE, stderr=subprocess.STDOUT, text=True, **kw)


def clean():
    sh("git -C %s checkout -q -- . && git -C %s clean -fdq -- src examples benches" % (REPO, REPO))


def run_one(d, also=(), tier="quick", timeout=1500):
    meta = json.load(open(os.path.join(d, "meta.json")))
    d = os.path.abspath(d)
    patch = os.path.join(d, "patch.diff")
    breaks = [p for p in str(meta.get("breaks", "")).replace(" ", "").split(",") if p.startswith("C")]
    benign = not breaks
    props = list(dict.fromkeys(breaks + list(also)))
    if benign and not props:
        props = meta.get("run", "C02").split(",")
    if sh("git -C %s status --porcelain -- src examples" % REPO).stdout.strip():
        print("refusing: /repo has uncommitted changes"); sys.exit(2)
    r = sh("git -C %s apply %s" % (REPO, patch))
    if r.returncode != 0:
        return {"dir": d, "error": "patch does not apply: " + r.stdout[-300:]}
    res = {"dir": d, "breaks": breaks, "results": {}}
    try:
        for p in props:
            t = time.time()
            try:
                c = sh("cd %s && ./check %s --tier %s" % (V, p, tier), timeout=timeout)
                rc, out = c.returncode, c.stdout
            except subprocess.TimeoutExpired:
                rc, out = 124, "timeout"
            viol = [l for l in out.splitlines() if l.startswith("VIOLATION")]
            first = [l.strip() for l in out.splitlines() if l.strip().startswith("violation:")][:1]
            tool = [l for l in out.splitlines() if l.startswith("TOOL-ERROR")]
            res["results"][p] = {"rc": rc, "violation": bool(viol), "first": (first or tool or [""])[0][:300], "wall": round(time.time() - t, 1)}
    finally:
        clean()
    return res


def main():
    a = sys.argv[1:]
    also, tier = [], "quick"
    if "--also" in a:
        also = a[a.index("--also") + 1].split(","); del a[a.index("--also"):a.index("--also") + 2]
    if "--tier" in a:
        tier = a[a.index("--tier") + 1]; del a[a.index("--tier"):a.index("--tier") + 2]
    dirs = []
    if a and a[0] == "--all":
        for root in a[1:]:
            dirs += sorted(os.path.dirname(p) for p in glob.glob(os.path.join(root, "**", "patch.diff"), recursive=True))
    else:
        dirs = a
    out = []
    for d in dirs:
        r = run_one(d, also, tier)
        out.append(r)
        if "error" in r:
            print("%-45s %s" % (os.path.relpath(d, V), r["error"]))
            continue
        for p, x in r["results"].items():
            exp = "expected" if p in r["breaks"] else "other"
            verdict = "DETECTED" if x["rc"] == 1 and x["violation"] else ("silent" if x["rc"] == 0 else "rc=%s" % x["rc"])
            print("%-45s %s [%s] %-8s %5.0fs  %s" % (os.path.relpath(d, V), p, exp, verdict, x["wall"], x["first"][:160]), flush=True)
    json.dump(out, open(os.path.join(V, "work", "muttest-last.json"), "w"), indent=1)


if __name__ == "__main__":
    main()
