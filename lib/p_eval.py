"""C01 (7-card evaluation = true strength class) and C07 (reported category)."""
import json
from vlib import *
import gen

PUBLISHED = [41584, 224848, 3473184, 4047644, 6180020, 6461620, 31433400, 58627800, 23294460]


def _keys():
    ks = [json.loads(l) for l in open(os.path.join(GEN, "keys.ndjson"))]
    return ks


def _spec_models(chk, thorough):
    r = gen.poker_tables(force=thorough)
    if r:
        chk.add_tlc(r, "MCPoker(rules=closed form,keys)")
    else:
        chk.note("MCPoker tables reused from setup (Poker.tla/MCPoker.tla unchanged since TLC exported them)")
    r = tlc("EvalKey", cfg="EvalKeyScan.cfg", timeout=600)
    chk.add_tlc(r, "EvalKey(flush scan, 4^7 orders)")
    r = tlc("EvalKey", cfg="EvalKeyLemma5.cfg", timeout=900, heap="6g")
    chk.add_tlc(r, "EvalKey(lemma, 20-card deck)")
    if thorough:
        r = tlc("EvalKey", cfg="EvalKeyLemma6.cfg", timeout=1800, heap="8g")
        chk.add_tlc(r, "EvalKey(lemma, 24-card deck)")


def _record(chk, thorough):
    trace = chk.path("eval.ndjson")
    hx(["eval-keys", "--seed", chk.seed, "--variants", 4 if thorough else 2, "--random", 100000 if thorough else 20000,
        "--cmp", 60000 if thorough else 20000, "--out", trace])
    return trace


def _coverage(events, keys):
    have = set()
    idxs = set()
    for e in events:
        if e["op"] == "eval":
            have.add((e["fl"], tuple(e["key"])))
            idxs.add(e["idx"])
    want = set(((1 if k["k"] == "F" else 0), tuple(k["r"])) for k in keys)
    return want - have, idxs


def _sweep(chk, orders, focus):
    summ = chk.path("sweep.json")
    mm = chk.path("mismatch.ndjson")
    hx(["sweep", "--keys", os.path.join(GEN, "keys.ndjson"), "--orders", orders, "--seed", chk.seed, "--focus", focus,
        "--mismatch", mm, "--out", summ, "--threads", NCPU], timeout=7200)
    s = json.loads(open(summ).read())
    if s["sets"] != 133784560:
        raise ToolError("sweep visited %d sets" % s["sets"])
    if s["spec_hist"] != PUBLISHED:
        raise ToolError("the specification's category histogram over all sets differs from the published frequencies: %s" % s["spec_hist"])
    return s, mm


def _report(chk, events, bad, gen_args, label):
    for i in bad:
        ev = json.loads(events[i - 1])
        if ev["op"] == "eval":
            sig = {"op": "eval", "cards": sorted(ev["cards"]), "idx": ev["idx"]}
        else:
            sig = {"op": "cmp", "a": sorted(ev["a"]), "b": sorted(ev["b"])}
        chk.violation("%s: event not allowed by the specification: %s" % (label, events[i - 1][:260]), sig,
                      {"gen": gen_args, "events": [ev]})


def c01(chk, opts):
    thorough = chk.tier == "thorough"
    build("release")
    _spec_models(chk, thorough)
    keys = _keys()
    trace = _record(chk, thorough)
    r, events, bad = validate_independent(chk, "TraceEval", trace, "TraceEval(C01 per-key hands)", cfg="TraceEvalC01.cfg", heap="8g")
    evs = [json.loads(e) for e in events]
    missing, idxs = _coverage(evs, keys)
    if missing:
        raise ToolError("recorder did not cover %d keys, e.g. %s" % (len(missing), sorted(missing)[:3]))
    _report(chk, events, bad, ["eval-keys"], "per-key hands")
    for i in (0, 60000, len(events) // 2 + 1234, len(events) - 5):
        chk.sample(events[min(i, len(events) - 1)])
    orders = 128 if thorough else 16
    s, mm = _sweep(chk, orders, "idx")
    chk.note("sweep: %d sets x %d presentation orders = %d evaluations, %d index mismatches against the TLC-exported key table" %
             (s["sets"], orders, s["evals"], s["idx_mismatch"]))
    if s["idx_mismatch"]:
        r2, ev2, bad2 = validate_independent(chk, "TraceEval", mm, "TraceEval(sweep mismatches)", cfg="TraceEvalC01.cfg", heap="8g")
        _report(chk, ev2, bad2, ["sweep"], "sweep of all 133,784,560 sets")
        if not bad2:
            raise ToolError("sweep reports %d mismatches but TLC accepts the sampled hands: key table and Eval7 disagree" % s["idx_mismatch"])
    if opts.get("selftest"):
        _selftest(chk, events, "TraceEvalC01.cfg")
    chk.exhaustive = False
    chk.assumptions = ["presentation orders are sampled per set (%d of 5040); the flush scan model covers all 4^7 suit orders" % orders,
                       "the sweep compares against the key->class table exported by TLC; the key abstraction is checked in TLC on reduced decks and per key from raw cards"]
    return chk.finish(rule="(a) every one of the 49,205 rank keys and 4,719 flush keys as concrete hands (several suitings/orders), random hands, "
                           "comparison pairs incl. exact ties: each validated by TLC from raw card ids with Eval7 (best of 21 subsets); "
                           "(b) all C(52,7) sets x sampled orders against the TLC-exported table",
                      extra={"sweep": s, "keys_covered": len(keys), "distinct_indexes_in_trace": len(idxs)})


def c07(chk, opts):
    thorough = chk.tier == "thorough"
    build("release")
    r = gen.poker_tables(force=thorough)
    if r:
        chk.add_tlc(r, "MCPoker(category boundaries = rules)")
    else:
        chk.note("MCPoker tables reused from setup (spec unchanged)")
    keys = _keys()
    trace = _record(chk, thorough)
    r, events, bad = validate_independent(chk, "TraceEval", trace, "TraceEval(C07 per-key hands)", cfg="TraceEvalC07.cfg", heap="8g")
    evs = [json.loads(e) for e in events]
    missing, idxs = _coverage(evs, keys)
    if missing:
        raise ToolError("recorder did not cover %d keys" % len(missing))
    # every category's strongest and weakest reachable class must have been exercised
    reach = {}
    for k in keys:
        reach.setdefault(k["t"], set()).add(k["c"])
    want = set()
    for t, cs in reach.items():
        want |= {min(cs), max(cs)}
    # expected classes of the recorded hands, by key (spec side)
    ktab = {((1 if k["k"] == "F" else 0), tuple(k["r"])): k["c"] for k in keys}
    got = set(ktab[(e["fl"], tuple(e["key"]))] for e in evs if e["op"] == "eval")
    if not want <= got:
        raise ToolError("category boundary classes not exercised: %s" % sorted(want - got))
    _report(chk, events, bad, ["eval-keys"], "per-key hands")
    for i in (3, 70000, len(events) // 2 + 77):
        chk.sample(events[i])
    # thorough: 80 orders per set, i.e. more than 2^29 evaluations on every sweep thread (counters that wrap after many calls)
    s, mm = _sweep(chk, 80 if thorough else 1, "ty")
    chk.note("sweep: hand_type() on all %d sets, %d category mismatches against the TLC-exported categories" % (s["sets"], s["ty_mismatch"]))
    if s["ty_mismatch"]:
        r2, ev2, bad2 = validate_independent(chk, "TraceEval", mm, "TraceEval(sweep mismatches)", cfg="TraceEvalC07.cfg", heap="8g")
        _report(chk, ev2, bad2, ["sweep"], "sweep of all sets")
        if not bad2:
            raise ToolError("sweep reports category mismatches but TLC accepts the sampled hands")
    if opts.get("selftest"):
        _selftest(chk, events, "TraceEvalC07.cfg")
    chk.exhaustive = True
    return chk.finish(rule="hand_type() of concrete hands for every key (so every one of the 4,824 reachable classes incl. the first and last of "
                           "every category), validated by TLC against CatOfIndex(Eval7(cards)); plus hand_type() on all C(52,7) sets",
                      extra={"sweep": s, "boundary_classes": sorted(want), "reachable_classes": len(got)})


def _selftest(chk, events, cfg):
    mut = []
    for e in events[:3000:500]:
        ev = json.loads(e)
        if ev["op"] == "eval":
            ev2 = dict(ev); ev2["idx"] = ev["idx"] + 1; mut.append(ev2)
            ev3 = dict(ev); ev3["ty"] = "Pair" if ev["ty"] != "Pair" else "Trips"; mut.append(ev3)
    p = chk.path("selftest.ndjson")
    open(p, "w").write("\n".join(json.dumps(m) for m in mut) + "\n")
    r = tlc("TraceEval", cfg=cfg, env={"TRACE": p}, workers=2, heap="4g")
    if len(r.bad) != len(mut) // 2:
        raise ToolError("selftest: %d corrupted events, %d rejected (expected %d)" % (len(mut), len(r.bad), len(mut) // 2))
    chk.note("selftest: %d corrupted events, the %d that touch this property rejected" % (len(mut), len(r.bad)))


CHECKS = {"C01": c01, "C07": c07}
