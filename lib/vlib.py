"""Shared machinery of the /verif checks: building the harness against /repo's working tree,
running TLC on the specification and on recorded traces, verdicts, known findings, evidence."""
import json, os, re, shutil, subprocess, sys, time, hashlib

VERIF = os.path.dirname(os.path.dirname(os.path.abspath(__file__)))
REPO = os.environ.get("VERIF_REPO", "/repo")
SPEC = os.path.join(VERIF, "spec")
GEN = os.path.join(SPEC, "gen")
HARNESS = os.path.join(VERIF, "harness")
WORKROOT = os.path.join(VERIF, "work")
NCPU = os.cpu_count() or 4
TLC_WORKERS = max(2, min(12, NCPU - 2))
TLA_CP = "/opt/veriftools/tla/tla2tools.jar:/opt/veriftools/tla/CommunityModules-deps.jar"


class ToolError(Exception):
    pass


def log(*a):
    print(*a, flush=True)


def _limit_mem(gb):
    def f():
        import resource
        resource.setrlimit(resource.RLIMIT_AS, (gb << 30, gb << 30))
    return f


def run(cmd, cwd=None, env=None, timeout=None, capture=True, stdin=None, mem_gb=None):
    e = dict(os.environ)
    e.update({"CARGO_NET_OFFLINE": "true"})
    if env:
        e.update(env)
    try:
        p = subprocess.run(cmd, cwd=cwd, env=e, timeout=timeout, stdout=subprocess.PIPE if capture else None,
                           stderr=subprocess.STDOUT if capture else None, text=True, errors="replace", input=stdin,
                           preexec_fn=_limit_mem(mem_gb) if mem_gb else None)
    except subprocess.TimeoutExpired as x:
        raise ToolError("timeout after %ss: %s" % (timeout, " ".join(cmd)))
    return p.returncode, (p.stdout or "")


# ----------------------------------------------------------------------------- harness
_built = set()


def build(profile="release", bins=("hx",)):
    """(re)build the harness against /repo's current working tree; cargo decides what is stale"""
    key = (profile, tuple(bins))
    if key in _built:
        return
    if not os.path.exists(os.path.join(HARNESS, "Cargo.lock")):
        shutil.copy(os.path.join(REPO, "Cargo.lock"), os.path.join(HARNESS, "Cargo.lock"))
    cmd = ["cargo", "build", "--offline"]
    if profile == "release":
        cmd.append("--release")
    for b in bins:
        cmd += ["--bin", b]
    t = time.time()
    rc, out = run(cmd, cwd=HARNESS, timeout=1800)
    if rc != 0:
        raise ToolError("cargo build failed (%s):\n%s" % (profile, out[-4000:]))
    _built.add(key)
    log("  built harness [%s %s] in %.1fs" % (profile, ",".join(bins), time.time() - t))


def binpath(profile="release", name="hx"):
    return os.path.join(HARNESS, "target", "release" if profile == "release" else "debug", name)


def hx(args, profile="release", timeout=1800, check=True):
    build(profile)
    # the harness runs the code under test: bound its address space so that a runaway cannot take the machine down
    rc, out = run([binpath(profile)] + [str(a) for a in args], timeout=timeout, mem_gb=24)
    if check and rc != 0:
        raise ToolError("harness failed rc=%s: hx %s\n%s" % (rc, " ".join(map(str, args)), out[-3000:]))
    return rc, out


# ----------------------------------------------------------------------------- TLC
class TlcResult:
    def __init__(self):
        self.generated = 0
        self.distinct = 0
        self.depth = 0
        self.bad = []          # event numbers printed as <<"BAD", i>>
        self.prints = []       # other PrintT tuples, raw text
        self.error = None      # text of a TLC error (invariant violated, evaluation error, ...)
        self.raw = ""
        self.wall = 0.0
        self.cmd = ""
        self.coverage = {}     # action name -> count (when -coverage is on)
        self.violated = None   # name of a violated invariant/property


def tlc(module, cfg=None, env=None, workers=None, timeout=900, heap="4g", xss=None, deque=False, extra=(),
        workdir=None, coverage=False, allow_violation=False):
    """run TLC on spec/<module>.tla with spec/<cfg>; returns TlcResult. Raises ToolError on tool failure."""
    workers = workers or TLC_WORKERS
    cfg = cfg or (module + ".cfg")
    md = os.path.join(workdir or WORKROOT, "tlc-" + module + "-" + hashlib.md5((cfg + str(time.time())).encode()).hexdigest()[:8])
    jopts = ["-Xmx" + heap, "-XX:+UseParallelGC"]
    if xss:
        jopts.append("-Xss" + xss)
    if deque:
        jopts.append("-Dtlc2.tool.queue.IStateQueue=StateDeque")
    cmd = ["java"] + jopts + ["-cp", TLA_CP, "tlc2.TLC", "-workers", str(workers), "-metadir", md, "-cleanup",
                              "-noGenerateSpecTE", "-config", cfg]
    if coverage:
        cmd += ["-coverage", "1"]
    cmd += list(extra) + [module + ".tla"]
    e = {}
    if env:
        e.update({k: str(v) for k, v in env.items()})
    t = time.time()
    rc, out = run(cmd, cwd=SPEC, env=e, timeout=timeout)
    shutil.rmtree(md, ignore_errors=True)
    r = TlcResult()
    r.wall = time.time() - t
    r.raw = out
    r.cmd = "TRACE=... " + " ".join(cmd[cmd.index("tlc2.TLC"):]).replace("tlc2.TLC", "tlc")
    for m in re.finditer(r"(\d+) states generated, (\d+) distinct states found", out):
        r.generated, r.distinct = int(m.group(1)), int(m.group(2))
    m = re.search(r"depth of the complete state graph search is (\d+)", out)
    if m:
        r.depth = int(m.group(1))
    r.bad = sorted(set(int(x) for x in re.findall(r'<<"BAD", (\d+)>>', out)))
    r.prints = re.findall(r'^(<<"[A-Z]+".*>>)\s*$', out, re.M)
    m = re.search(r"Invariant (\S+) is violated", out) or re.search(r"property (\S+) (?:is|was) violated", out)
    if m:
        r.violated = m.group(1)
    elif "Temporal properties were violated" in out:
        r.violated = "temporal"
    elif re.search(r"Postcondition \S+ .* is false", out):
        r.violated = "postcondition"
    elif "is violated" in out:
        r.violated = "unknown"
    errs = [l for l in out.splitlines() if l.startswith("Error:")]
    if errs:
        i = out.index(errs[0])
        r.error = out[i:i + 3000]
    finished = "Model checking completed" in out or "Finished in" in out or "Simulation" in out
    if r.violated and not allow_violation:
        raise ToolError("TLC: %s violated in %s/%s\n%s" % (r.violated, module, cfg, tail(out)))
    if (r.error and not r.violated) or (rc != 0 and not r.violated) or not finished:
        raise ToolError("TLC failed on %s/%s (rc=%s)\n%s" % (module, cfg, rc, tail(out)))
    if coverage:
        for m in re.finditer(r"^<(\w+) line \d+, col \d+ to line \d+, col \d+ of module (\w+)>: (\d+):(\d+)", out, re.M):
            r.coverage[m.group(2) + "!" + m.group(1)] = (int(m.group(3)), int(m.group(4)))
    return r


def tail(out, n=60):
    ls = [l for l in out.splitlines() if not re.match(r"^(Parsing|Semantic processing|Linting)", l)]
    return "\n".join(ls[-n:])


def sany(module):
    rc, out = run(["java", "-cp", TLA_CP, "tla2sany.SANY", module + ".tla"], cwd=SPEC, timeout=300)
    if rc != 0 or "Semantic errors" in out or "Parse Error" in out or "Fatal" in out or "Could not" in out:
        raise ToolError("SANY rejected %s:\n%s" % (module, tail(out)))


def read_events(path):
    with open(path) as f:
        return [l.rstrip("\n") for l in f if l.strip()]


# ----------------------------------------------------------------------------- verdicts, findings, evidence
def load_findings():
    p = os.path.join(VERIF, "known_findings.json")
    if not os.path.exists(p):
        return []
    return json.load(open(p)).get("findings", [])


class Check:
    """one run of one property's check"""

    def __init__(self, pid, tier, seed):
        self.pid, self.tier, self.seed = pid, tier, seed
        self.t0 = time.time()
        self.work = os.path.join(WORKROOT, pid)
        shutil.rmtree(self.work, ignore_errors=True)
        os.makedirs(self.work, exist_ok=True)
        os.makedirs(os.path.join(VERIF, "replays"), exist_ok=True)
        os.makedirs(os.path.join(VERIF, "evidence"), exist_ok=True)
        self.states = 0
        self.transitions = 0
        self.traces = 0           # traces (or independent events) of the real code validated by TLC
        self.events = 0
        self.samples = []
        self.notes = []
        self.cmds = []
        self.parts = {}
        self.violations = []      # dicts: what, replay, sig
        self.known = []
        self.exhaustive = None
        self.assumptions = []
        self.findings = [f for f in load_findings() if f.get("property") == pid and f.get("status") == "open"]
        log("== %s tier=%s seed=%s (repo %s)" % (pid, tier, seed, REPO))

    def path(self, name):
        return os.path.join(self.work, name)

    def add_tlc(self, r, label):
        self.states += r.distinct
        self.transitions += r.generated
        self.cmds.append(r.cmd)
        self.parts[label] = {"states": r.distinct, "transitions": r.generated, "wall_s": round(r.wall, 1)}
        log("  TLC %-28s %9d generated %9d distinct  %.1fs" % (label, r.generated, r.distinct, r.wall))

    def note(self, s):
        self.notes.append(s)
        log("  " + s)

    def sample(self, x, cap=6):
        if len(self.samples) < cap:
            if isinstance(x, str):
                try:
                    x = json.loads(x)
                except Exception:
                    pass
            self.samples.append(x)

    def violation(self, what, sig, replay_obj):
        """register a property violation; sig (dict) identifies the failing input for known_findings matching"""
        for f in self.findings:
            m = f.get("match", {})
            if m and all(sig.get(k) == v for k, v in m.items()):
                self.known.append((f, what))
                return False
        n = len(self.violations)
        rp = os.path.join(VERIF, "replays", "%s-%s-%d.json" % (self.pid, self.seed, n))
        if n < 20:
            replay_obj = dict(replay_obj)
            replay_obj.update({"property": self.pid, "seed": self.seed, "tier": self.tier, "what": what, "sig": sig})
            with open(rp, "w") as f:
                json.dump(replay_obj, f, indent=1)
        self.violations.append({"what": what, "replay": rp, "sig": sig})
        return True

    def finish(self, level="model_checking", rule=None, extra=None):
        wall = time.time() - self.t0
        seen = set()
        for f, what in self.known:
            k = json.dumps(f.get("match"), sort_keys=True)
            if k not in seen:
                seen.add(k)
                log("KNOWN-FINDING: property=%s %s" % (self.pid, f.get("what", what)))
        cov = {
            "states": max(self.states, 0),
            "transitions": max(self.transitions, 0),
            "traces_validated_against_impl": self.traces,
            "events_validated": self.events,
            "samples": self.samples[:8] if self.samples else ["(none recorded)"],
            "checker_cmd": " ; ".join(self.cmds[:6]),
            "parts": self.parts,
            "notes": self.notes,
        }
        if rule:
            cov["rule"] = rule
        if self.exhaustive is not None:
            cov["exhaustive"] = self.exhaustive
        if extra:
            cov.update(extra)
        ev = {
            "property_id": self.pid, "tier": self.tier, "seed": self.seed, "level": level, "coverage": cov,
            "assumptions": self.assumptions, "wall_s": round(wall, 1), "violations": len(self.violations),
            "known_findings_hit": len(seen),
        }
        with open(os.path.join(VERIF, "evidence", self.pid + ".json"), "w") as f:
            json.dump(ev, f, indent=1)
        for v in self.violations[:6]:
            log("  violation: " + v["what"])
        if self.violations:
            log("VIOLATION property=%s replay=%s" % (self.pid, self.violations[0]["replay"]))
            log("== %s FAILED: %d violation(s) in %.1fs" % (self.pid, len(self.violations), wall))
            return 1
        log("== %s ok: %d states, %d transitions, %d impl traces/events validated, %.1fs" %
            (self.pid, self.states, self.transitions, self.traces, wall))
        return 0


def validate_independent(chk, module, trace, label, cfg=None, workers=None, timeout=900, heap="4g", xss=None, env=None):
    """validate a file of independent events with a fan-out trace module; returns (TlcResult, events, bad indices 1-based)"""
    events = read_events(trace)
    e = {"TRACE": trace}
    if env:
        e.update(env)
    r = tlc(module, cfg=cfg, env=e, workers=workers, timeout=timeout, heap=heap, xss=xss)
    chk.add_tlc(r, label)
    # every event must have been visited: root + K shards + events
    if r.distinct < len(events) + 1:
        raise ToolError("%s: TLC visited %d states for %d events" % (label, r.distinct, len(events)))
    chk.events += len(events)
    chk.traces += len(events)
    return r, events, r.bad
