"""C05 (notation parses to its standard meaning), C09 (parsers are total), C10 (parsed ranges are valid)."""
from concurrent.futures import ThreadPoolExecutor
import json
from vlib import *
import gen


def _tokens(chk, label="MCNotation(laws, 3796 bodies)"):
    """TLC: laws of the denotation; export of every well-formed token body"""
    r = tlc("MCNotation", timeout=900, heap="6g")
    chk.add_tlc(r, label)
    toks = re.findall(r'^<<"TOK", <<(.*)>>>>\s*$', r.raw, re.M)
    if len(set(toks)) != 3796:
        raise ToolError("MCNotation exported %d bodies" % len(set(toks)))
    p = chk.path("tokens.ndjson")
    with open(p, "w") as f:
        for t in sorted(set(toks)):
            f.write(json.dumps(re.findall(r'"([^"]*)"', t)) + "\n")
    return p


def _text(ev):
    if ev["op"] == "tok":
        return "".join(ev["body"]) + "".join(ev["lit"])
    if ev["op"] == "list":
        return ev["text"]
    names = {"U2": "é", "U3": "€", "U4": "\U0001F600", "NL": "\n"}
    return "".join(names.get(c, chr(int(c[1:], 16)) if len(c) > 1 and c[0] == "X" else c) for c in ev["s"])


def _brief(ev):
    t = _text(ev)
    d = {k: ev[k] for k in ev if k in ("op", "tres", "rres", "rt", "rank", "suit", "card", "pair", "token", "expand", "range", "fmt", "split", "enum")}
    for k in ("rng", "exp", "texp"):
        if k in ev and ev[k]:
            d[k] = ev[k][:4]
    return "%r -> %s" % (t[:60], json.dumps(d)[:300])


def c05(chk, opts):
    thorough = chk.tier == "thorough"
    build("release")
    tokens = _tokens(chk)
    trace = chk.path("c05.ndjson")
    hx(["c05", "--seed", chk.seed, "--tokens", tokens, "--all-lits", 1 if thorough else 0, "--lists", 30000 if thorough else 2500, "--out", trace], timeout=3000)
    r, events, bad = validate_independent(chk, "TraceNotation", trace, "TraceNotation(C05)", cfg="TraceNotationC05.cfg", heap="8g", xss="1g", timeout=3000)
    bodies = set()
    for e in events:
        if e.startswith('{"op":"tok"'):
            bodies.add(e[e.index('"body":') + 7:e.index(',"lit"')])
    if len(bodies) != 3796:
        raise ToolError("recorder covered %d of 3796 well-formed bodies" % len(bodies))
    for i in bad:
        ev = json.loads(events[i - 1])
        chk.violation("parsed result differs from the denotation: " + _brief(ev), {"op": ev["op"], "text": _text(ev)[:200]}, {"gen": ["c05"], "event": ev})
    for i in (0, 4001, len(events) - 3):
        chk.sample(_brief(json.loads(events[i])))
    if opts.get("selftest"):
        muts = []
        for e in events[:2000:333]:
            ev = json.loads(e)
            if ev["op"] == "tok" and ev["rng"]:
                a = json.loads(e); a["rng"] = a["rng"][1:]; muts.append(a)
                b = json.loads(e); b["rng"][0][2] = 7; muts.append(b)
        p = chk.path("selftest.ndjson")
        open(p, "w").write("\n".join(json.dumps(m) for m in muts) + "\n")
        rr = tlc("TraceNotation", cfg="TraceNotationC05.cfg", env={"TRACE": p}, workers=2, heap="3g")
        if len(rr.bad) != len(muts):
            raise ToolError("selftest: %d corrupted, %d rejected" % (len(muts), len(rr.bad)))
        chk.note("selftest: %d corrupted events all rejected" % len(muts))
    chk.exhaustive = True if thorough else False
    return chk.finish(rule="every one of the 3,796 well-formed token bodies exported by TLC (x 2 weight literals quick, x 9 thorough) parsed as a token (expansion) and as a "
                           "one-token range; random lists of 1-12 overlapping tokens with random spaces, the empty string, the suite's 12-token list; TLC recomputes "
                           "the denotation (later token overwrites) and compares combo for combo, weight bits against Rust's own f32 parse of the literal",
                      extra={"bodies": len(bodies), "events": len(events)})


def _c09_trace(chk, thorough):
    trace = chk.path("c09.ndjson")
    hx(["c09", "--seed", chk.seed, "--maxlen", 4 if thorough else 3, "--edits", 40000 if thorough else 6000, "--unicode", 20000 if thorough else 3000,
        "--huge", 1 if thorough else 0, "--threads", NCPU, "--out", trace], timeout=3000)
    return trace


def c09(chk, opts):
    thorough = chk.tier == "thorough"
    build("release")
    build("dev")
    r = tlc("MCParser", cfg="MCParserThorough.cfg" if thorough else "MCParser.cfg", timeout=3000, heap="8g")
    chk.add_tlc(r, "MCParser(all strings <= %d over 22 chars)" % (5 if thorough else 4))
    # the same calls in a debug build (overflow checks and debug assertions on), on a smaller corpus; both recorders run at once
    tdev = chk.path("c09-dev.ndjson")
    with ThreadPoolExecutor(max_workers=2) as ex:
        fdev = ex.submit(hx, ["c09", "--seed", chk.seed, "--maxlen", 2, "--edits", 6000 if thorough else 1500, "--unicode", 1500 if thorough else 400, "--sfx-len", 2,
                              "--threads", NCPU, "--out", tdev], profile="dev", timeout=3000)
        trace = _c09_trace(chk, thorough)
        fdev.result()
    with open(trace, "a") as f:
        f.write(open(tdev).read())
    r, events, bad = validate_independent(chk, "TraceNotation", trace, "TraceNotation(C09)", cfg="TraceNotationC09.cfg", heap="10g", timeout=3000)
    drift = sorted(set(int(x) for x in re.findall(r'<<"DRIFT", (\d+)>>', r.raw)))
    if drift:
        chk.note("MODEL-DRIFT (informational, no verdict): ParserShape predicts a different outcome for %d strings, e.g. %s" %
                 (len(drift), _brief(json.loads(events[drift[0] - 1]))))
    for i in bad:
        ev = json.loads(events[i - 1])
        chk.violation("a parser or a follow-up call panicked: " + _brief(ev), {"op": ev["op"], "text": _text(ev)[:200]}, {"gen": ["c09"], "event": ev})
    for i in (5, 3000, len(events) - 30):
        chk.sample(_brief(json.loads(events[i])))
    chk.exhaustive = False
    return chk.finish(rule="every string up to length %d over the model's 22-character alphabet (incl. 2-, 3- and 4-byte characters), shape-valid tokens over five ranks with "
                           "17 weight suffixes and their single-character edits, comma lists of those, random Unicode, over-long input, the suite's strings: each through "
                           "the six parsers, every Ok value through expand / format / split / a two-position enumeration; allowed iff nothing panics" % (4 if thorough else 3),
                      extra={"strings": len(events), "model_drift": len(drift)})


def c10(chk, opts):
    thorough = chk.tier == "thorough"
    build("release")
    r = tlc("MCParser", cfg="MCParserThorough.cfg" if thorough else "MCParser.cfg", timeout=3000, heap="8g")
    chk.add_tlc(r, "MCParser(OnlyValid)")
    tokens = _tokens(chk, "MCNotation(bodies)")
    t1 = chk.path("c05.ndjson")
    hx(["c05", "--seed", chk.seed, "--tokens", tokens, "--all-lits", 1 if thorough else 0, "--lists", 10000 if thorough else 1000, "--out", t1], timeout=3000)
    t2 = _c09_trace(chk, thorough)
    trace = chk.path("c10.ndjson")
    with open(trace, "w") as f:
        f.write(open(t1).read())
        f.write(open(t2).read())
    r, events, bad = validate_independent(chk, "TraceNotation", trace, "TraceNotation(C10)", cfg="TraceNotationC10.cfg", heap="10g", xss="1g", timeout=3000)
    nonempty = sum(1 for e in events if '"rng":[[' in e)
    shows = sum(1 for e in events if '"shows":[[' in e)
    for i in bad:
        ev = json.loads(events[i - 1])
        chk.violation("a parsed value holds an impossible combo or a weight outside [0,1]: " + _brief(ev), {"op": ev["op"], "text": _text(ev)[:200]}, {"gen": ["c10"], "event": ev})
    if not chk.violations and (nonempty < 1000 or shows < 100):
        raise ToolError("vacuity: only %d non-empty parsed ranges, %d enumerated" % (nonempty, shows))
    for i in (7, len(events) // 2, len(events) - 40):
        chk.sample(_brief(json.loads(events[i])))
    chk.exhaustive = False
    return chk.finish(rule="every Ok result of the C05 corpus (all well-formed tokens x weight literals, lists) and of the C09 corpus (bounded strings, shape-valid tokens with "
                           "weight suffixes such as :1.5, :1.75, :1.00000001, :2, equal-card pairs, edits, Unicode): each combo must have two different cards and weight bits in "
                           "0..0x3f800000; showdowns enumerated from parsed ranges must have distinct cards and probability in [0,1]",
                      extra={"events": len(events), "non_empty_ranges": nonempty, "enumerated": shows})


CHECKS = {"C05": c05, "C09": c09, "C10": c10}
