"""Flop enumeration family: C02 (exactly the legal deals), C04 (scopes tile), C08 (terminates, bounded stack, no panic)."""
import json, subprocess
from vlib import *
import gen

SEQ = dict(workers=1, xss="1g", deque=True)


def _split_blocks(events):
    blocks, cur = [], []
    for e in events:
        if e.startswith('{"op":"new"') and cur:
            blocks.append(cur)
            cur = []
        cur.append(e)
    if cur:
        blocks.append(cur)
    return blocks


def validate_blocks(chk, module, cfg, trace, label, shards=None, max_rejections=3, timeout=1800, heap="3g"):
    """validate a sequential trace made of blocks that start with a 'new' event, sharded over parallel TLC
    processes (one worker each, depth-first queue).  After a rejection the block is reported and validation of
    that shard resumes with its next block.  returns (events, [(global line, event, block event, block line)])"""
    from concurrent.futures import ThreadPoolExecutor
    events = read_events(trace)
    blocks = _split_blocks(events)
    shards = shards or max(1, min(NCPU - 2, 12, len(events) // 4000 + 1))
    # contiguous shards of roughly equal event counts
    per = len(events) / shards
    groups, cur, n, off = [], [], 0, 0
    offs = []
    for b in blocks:
        if n >= per and len(groups) < shards - 1:
            groups.append(cur); cur = []; n = 0
        if not cur:
            offs.append(off)
        cur.append(b); n += len(b); off += len(b)
    if cur:
        groups.append(cur)

    def work(gi):
        evs = [e for b in groups[gi] for e in b]
        base = offs[gi]
        start, rej, results = 0, [], []
        while start < len(evs):
            sub = chk.path("shard-%d-%d.ndjson" % (gi, start))
            open(sub, "w").write("\n".join(evs[start:]) + "\n")
            r = tlc(module, cfg=cfg, env={"TRACE": sub}, timeout=timeout, heap=heap, allow_violation=True, **SEQ)
            os.remove(sub)
            results.append(r)
            m = re.search(r'<<"REJECTED", (\d+)>>', r.raw)
            if not m:
                if r.violated or r.error:
                    raise ToolError("TLC failed on %s without a rejection line\n%s" % (label, tail(r.raw)))
                if r.distinct < len(evs) - start + 1:
                    raise ToolError("%s: trace of %d events, only %d states" % (label, len(evs) - start, r.distinct))
                break
            li = start + int(m.group(1)) - 1          # 0-based index in the shard of the first unmatched event
            b = li
            while b > 0 and not evs[b].startswith('{"op":"new"'):
                b -= 1
            rej.append((base + li + 1, evs[li], evs[b], base + b + 1))
            nxt = li + 1
            while nxt < len(evs) and not evs[nxt].startswith('{"op":"new"'):
                nxt += 1
            start = nxt
            if len(rej) >= max_rejections:
                break
        return results, rej, len(evs) - start if len(rej) >= max_rejections else 0

    t = time.time()
    with ThreadPoolExecutor(max_workers=len(groups)) as ex:
        outs = list(ex.map(work, range(len(groups))))
    rejections, unexamined = [], 0
    agg = TlcResult()
    for results, rej, left in outs:
        for r in results:
            agg.generated += r.generated
            agg.distinct += r.distinct
            agg.cmd = r.cmd
        rejections += rej
        unexamined += left
    agg.wall = time.time() - t
    chk.add_tlc(agg, "%s x%d shards" % (label, len(groups)))
    if unexamined:
        chk.note("%s: %d events left unexamined after repeated rejections" % (label, unexamined))
    chk.events += len(events)
    rejections.sort()
    return events, rejections


def c02(chk, opts):
    thorough = chk.tier == "thorough"
    build("release")
    r = tlc("MCFlop", cfg="MCFlopThorough.cfg" if thorough else "MCFlop.cfg", timeout=3600, heap="12g")
    chk.add_tlc(r, "MCFlop(FlopOdometer => FlopEnum)")
    trace = chk.path("c02.ndjson")
    hx(["c02", "--seed", chk.seed, "--n", 4000 if thorough else 500, "--family-stride", 1 if thorough else 9, "--out", trace])
    events, rej = validate_blocks(chk, "TraceFlop", "TraceFlop.cfg", trace, "TraceFlop(real size)", heap="8g", timeout=3000)
    blocks = sum(1 for e in events if e.startswith('{"op":"new"'))
    nexts = sum(1 for e in events if e.startswith('{"op":"next"'))
    chk.traces += blocks
    for (line, ev, blk, bline) in rej:
        cfg = json.loads(blk)
        sig = {"flop": cfg["flop"], "ranges": [[e["c"] for e in r] for r in cfg["ranges"]], "from": cfg["from"], "to": cfg["to"]}
        chk.violation("event %d is not a step FlopEnum allows: %s   [in the block opened at line %d: %s]" % (line, ev[:200], bline, blk[:300]),
                      sig, {"gen": ["c02"], "block": cfg, "rejected_event": json.loads(ev), "line": line})
    _odometer_binding(chk, thorough)
    i = 0
    for e in events:
        if e.startswith('{"op":"new"') and i < 3:
            chk.sample(e[:600]); i += 1
    chk.sample(events[min(len(events) - 1, 5)])
    if opts.get("selftest"):
        _selftest_c02(chk, events)
    chk.exhaustive = False
    return chk.finish(rule="each block = one real evaluator drained to None: the MCFlop small-scope family replayed through the tail window, random flops x 1-4 players x "
                           "ranges of 1-12 dyadic-weighted combos overlapping each other, the flop and the window, windows at starts, rollovers and the end, complete runs, "
                           "ranges of 255/256/257/300/1326 combos; every yield validated as a FlopEnum step (legal, in scope, once, position order, product), "
                           "every position completed is counted against CountLegal",
                      extra={"blocks": blocks, "showdowns": nexts})


def _odometer_binding(chk, thorough):
    """implementation-level binding of FlopOdometer through the guarded accessors in /repo: informational only"""
    rc, out = run(["cargo", "build", "--offline", "--release", "--features", "hook", "--target-dir", "target-hook", "--bin", "hx"], cwd=HARNESS, timeout=1800,
                  env={"RUSTFLAGS": "--cfg espada_verif --check-cfg cfg(espada_verif)"})
    if rc != 0:
        chk.note("I-level binding skipped: /repo or the harness does not build with --cfg espada_verif and the hook feature (accessors verif_state/verif_entries missing or no longer matching the internals?)")
        return
    trace = chk.path("odometer.ndjson")
    rc, out = run([os.path.join(HARNESS, "target-hook", "release", "hx"), "odometer", "--seed", str(chk.seed), "--family-stride", "10" if thorough else "40",
                   "--n", "400" if thorough else "60", "--out", trace], timeout=1800, mem_gb=24)
    if rc != 0:
        chk.note("I-level binding skipped: odometer recorder failed")
        return
    try:
        r = tlc("TraceOdometer", cfg="TraceOdometer.cfg", env={"TRACE": trace}, timeout=1800, heap="6g", allow_violation=True, **SEQ)
    except ToolError as x:
        chk.note("I-level binding skipped: " + str(x)[:200])
        return
    chk.add_tlc(r, "TraceOdometer(I-level, via hook)")
    n = len(read_events(trace))
    m = re.search(r'<<"REJECTED", (\d+)>>', r.raw)
    if m:
        chk.note("MODEL-DRIFT (informational, no verdict): the iterator's internal state after call %s differs from FlopOdometer's (trace of %d calls)" % (m.group(1), n))
    else:
        chk.note("I-level binding: %d calls of next(), the iterator's (turn, river, digits) after each call equal FlopOdometer's" % n)
    chk.parts["odometer_calls"] = n


def _selftest_c02(chk, events):
    """corrupt one recorded field / drop one event in a good block: TLC must reject"""
    # first block with at least 3 next events
    i = 0
    blocks = []
    cur = []
    for e in events:
        if e.startswith('{"op":"new"') and cur:
            blocks.append(cur); cur = []
        cur.append(e)
    blocks.append(cur)
    blk = next(b for b in blocks if sum(1 for e in b if '"next"' in e) >= 3)
    muts = []
    a = list(blk); ev = json.loads(a[2]); ev["holes"][0][0] = (ev["holes"][0][0] + 1) % 52; a[2] = json.dumps(ev); muts.append(("hole card changed", a))
    a = list(blk); del a[2]; muts.append(("one showdown dropped", a))
    a = list(blk); a.insert(2, a[2]); muts.append(("one showdown duplicated", a))
    a = list(blk); ev = json.loads(a[1]); ev["pm"] = ev["pm"] * 3 + 1; a[1] = json.dumps(ev); muts.append(("probability changed", a))
    for what, a in muts:
        p = chk.path("selftest.ndjson")
        open(p, "w").write("\n".join(a) + "\n")
        r = tlc("TraceFlop", cfg="TraceFlop.cfg", env={"TRACE": p}, allow_violation=True, heap="2g", **SEQ)
        if "REJECTED" not in r.raw:
            raise ToolError("selftest: corrupted trace (%s) was accepted" % what)
    chk.note("selftest: %d corrupted copies of a good block all rejected" % len(muts))


def c08(chk, opts):
    """child processes, two build profiles, 2 MiB thread stack"""
    from concurrent.futures import ThreadPoolExecutor
    thorough = chk.tier == "thorough"
    build("release")
    build("dev")
    # design level: the odometer model has no panic, bounded re-entry depth, and terminates (no state constraint)
    r = tlc("MCFlop", cfg="MCFlopC08.cfg", timeout=3600, heap="12g")
    chk.add_tlc(r, "MCFlop(NoPanic, DepthBound, Terminates)")
    cases = chk.path("cases.ndjson")
    hx(["drain-cases", "--seed", chk.seed, "--thorough", 1 if thorough else 0, "--out", cases])
    cfgs = [json.loads(l) for l in read_events(cases)]

    def child(job):
        i, prof = job
        t = time.time()
        try:
            p = subprocess.run([binpath(prof), "drain", "--cases", cases, "--line", str(i), "--stack", str(2 << 20)],
                               stdout=subprocess.PIPE, stderr=subprocess.PIPE, text=True, timeout=(900 if thorough else 150))
        except subprocess.TimeoutExpired:
            return i, prof, {"outcome": "timeout", "count": -1, "sticky": 0}, time.time() - t
        out = None
        for ln in p.stdout.splitlines():
            if ln.startswith("{"):
                out = json.loads(ln)
        if p.returncode != 0 or out is None:
            # killed by a signal (stack overflow aborts the process) or died otherwise
            what = "signal %d" % -p.returncode if p.returncode < 0 else "exit %d" % p.returncode
            if "stack overflow" in p.stderr:
                what += " (stack overflow)"
            out = {"outcome": what, "count": -1, "sticky": 0}
        return i, prof, out, time.time() - t

    jobs = [(i, prof) for i in range(len(cfgs)) for prof in ("dev", "release")]
    with ThreadPoolExecutor(max_workers=max(2, NCPU // 2)) as ex:
        results = list(ex.map(child, jobs))
    trace = chk.path("drain.ndjson")
    slowest = max(results, key=lambda x: x[3])
    print("  slowest child: case %d [%s] %.1fs" % (slowest[0], slowest[1], slowest[3]), flush=True)
    with open(trace, "w") as f:
        for i, prof, out, dt in results:
            ev = dict(cfgs[i]); ev.update(out); ev.update({"op": "drain", "profile": prof, "case": i})
            f.write(json.dumps(ev) + "\n")
    r, events, bad = validate_independent(chk, "TraceDrain", trace, "TraceDrain", cfg="TraceDrain.cfg", heap="8g", xss="1g", timeout=3000)
    for i in bad:
        ev = json.loads(events[i - 1])
        sig = {"name": ev["name"], "profile": ev["profile"]}
        chk.violation("drain '%s' [%s build, 2 MiB stack]: outcome=%s count=%s (range sizes %s, scope %s-%s)" %
                      (ev["name"], ev["profile"], ev["outcome"], ev["count"], [len(x) for x in ev["ranges"]], ev["from"], ev["to"]),
                      sig, {"gen": ["drain-cases"], "case": ev["case"], "profile": ev["profile"],
                            "cfg": {k: ev[k] for k in ("flop", "from", "to")}, "range_sizes": [len(x) for x in ev["ranges"]],
                            "outcome": ev["outcome"], "count": ev["count"]})
    for e in events[:60:13]:
        ev = json.loads(e)
        chk.sample({k: (ev[k] if k != "ranges" else [len(x) for x in ev["ranges"]]) for k in ("name", "profile", "flop", "ranges", "from", "to", "outcome", "count")})
    chk.exhaustive = False
    chk.assumptions = ["stack use is observed as the fate of a child process draining on a 2 MiB thread, not modelled in bytes"]
    return chk.finish(rule="each case is drained in a child process per build profile (dev = overflow checks on, release) on a 2 MiB thread: empty ranges, "
                           "sizes 1/2/255/256/257/511/512/513/1326, a one-combo range blocked for a whole turn beside 250/1326 combos (both seat orders), "
                           "everything blocked, flop-blocked, 3-4 players, random wide ranges; allowed iff outcome ok, count = number of legal deals, None is sticky",
                      extra={"cases": len(cfgs), "profiles": ["dev", "release"], "child_runs": len(jobs)})


CHECKS = {"C02": c02, "C08": c08}
