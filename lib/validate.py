#!/opt/veriftools/pyvenv/bin/python
"""validates MANIFEST.json and every evidence file against the schemas in /root/.vp (developer aid)"""
import json, jsonschema, glob, sys
ok = True
def v(f, s):
    global ok
    try:
        jsonschema.validate(json.load(open(f)), json.load(open(s))); print("valid", f)
    except Exception as x:
        ok = False; print("INVALID", f, str(x)[:500])
v('/verif/MANIFEST.json', '/root/.vp/MANIFEST.schema.json')
for f in sorted(glob.glob('/verif/evidence/*.json')): v(f, '/root/.vp/EVIDENCE.schema.json')
sys.exit(0 if ok else 1)
