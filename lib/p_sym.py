"""C11: equities are invariant under suit relabelling and follow player reordering."""
import json
from vlib import *
import gen


def c11(chk, opts):
    thorough = chk.tier == "thorough"
    build("release")
    gen.ensure_all()
    r = tlc("MCSym", cfg="MCSymThorough.cfg" if thorough else "MCSym.cfg", timeout=3600, heap="8g")
    chk.add_tlc(r, "MCSym(spec tally symmetric, 24 sigma x seats)")
    trace = chk.path("c11.ndjson")
    hx(["c11", "--seed", chk.seed, "--bases", 60 if thorough else 16, "--sigmas", 24 if thorough else 8, "--out", trace], timeout=3000)
    r, events, bad = validate_independent(chk, "TraceSym", trace, "TraceSym(paired complete runs)", heap="6g", timeout=3000)
    evs = [json.loads(e) for e in events]
    bases = [e for e in evs if e["base"] == 0]
    ties = sum(1 for e in bases if any(p[0] >= 2 for p in e["patterns"]))
    shows = sum(e["count"] for e in evs)
    for i in bad:
        ev = evs[i - 1]
        base = evs[ev["base"] - 1] if ev["base"] else ev
        sig = {"flop": base["flop"], "ranges": [[x["c"] for x in r] for r in base["ranges"]], "sigma": ev["sigma"], "pi": ev["pi"]}
        chk.violation("tallies of the image run (sigma=%s, pi=%s) %s differ from the base run's %s, or a showdown's winner flags do not add up to one pot; base flop %s" %
                      (ev["sigma"], ev["pi"], ev["tally"], base["tally"], base["flop"]), sig,
                      {"gen": ["c11"], "base": base, "image": ev})
    if not chk.violations and (len(bases) < 8 or ties < 3):
        raise ToolError("vacuity: %d bases, %d with ties" % (len(bases), ties))
    for i in (0, 1, len(events) // 2):
        chk.sample(events[i][:700])
    if opts.get("selftest"):
        muts = []
        for e in evs[:30]:
            if e["base"]:
                a = json.loads(json.dumps(e)); a["tally"][0][0] += 1; muts.append(a)
        p = chk.path("selftest.ndjson")
        # keep line numbers: corrupted copies are appended after the originals
        open(p, "w").write("\n".join(events + [json.dumps(m) for m in muts]) + "\n")
        rr = tlc("TraceSym", env={"TRACE": p}, workers=4, heap="4g")
        if len([b for b in rr.bad if b > len(events)]) != len(muts):
            raise ToolError("selftest: %d corrupted runs, %d rejected" % (len(muts), len(rr.bad)))
        chk.note("selftest: %d corrupted tallies all rejected" % len(muts))
    chk.exhaustive = False
    return chk.finish(rule="for each base configuration (random 2-3 players with overlapping ranges, flush-heavy flops with suited hands, chop-prone equal ranks): "
                           "the complete run, its images under suit permutations (8 of 24 quick / all 24 thorough) combined with seat permutations, and every seat "
                           "permutation; TLC checks that the image configuration is the image, per-showdown flags add up to one pot, the README-loop tallies equal the "
                           "pattern counts, and image tallies = permuted base tallies",
                      extra={"bases": len(bases), "bases_with_ties": ties, "runs": len(evs), "showdowns_in_runs": shows})


CHECKS = {"C11": c11}
