"""C15: evaluator instances are independent under any interleaving or thread schedule."""
import json
from vlib import *


def c15(chk, opts):
    thorough = chk.tier == "thorough"
    build("release")
    # all interleavings of 3 iterators x 3 (4) calls, enumerated by TLC
    r = tlc("Workers", cfg="WorkersThorough.cfg" if thorough else "Workers.cfg", timeout=1800, heap="6g")
    chk.add_tlc(r, "Workers(all interleavings)")
    scheds = re.findall(r'<<"SCHED", <<([0-9, ]+)>>>>', r.raw)
    want = 34650 if thorough else 1680
    if len(set(scheds)) != want:
        raise ToolError("Workers printed %d distinct schedules, expected %d" % (len(set(scheds)), want))
    sf = chk.path("schedules.ndjson")
    with open(sf, "w") as f:
        for s in sorted(set(scheds)):
            f.write("[%s]\n" % s.replace(" ", ""))
    # compile-time part: Send + Sync of the public types
    rc, out = run(["cargo", "build", "--offline", "--release", "--bin", "sendsync"], cwd=HARNESS, timeout=1800)
    send_ok = rc == 0
    if rc != 0:
        if re.search(r"cannot be (sent|shared) between threads safely", out):
            m = re.search(r"error\[E0277\]: (.*)", out)
            chk.violation("a public type is not Send + Sync: %s" % (m.group(1) if m else "see cargo output"), {"op": "sendsync"},
                          {"gen": ["cargo build --bin sendsync"], "cargo": out[-3000:]})
        else:
            raise ToolError("sendsync does not build:\n" + out[-3000:])
    trace = chk.path("c15.ndjson")
    hx(["c15", "--seed", chk.seed, "--pool", 40, "--schedules", sf, "--random", 400 if thorough else 80,
        "--threads", 16, "--rounds", 12 if thorough else 3, "--big-rounds", 8 if thorough else 3, "--storm", 40000 if thorough else 8000, "--out", trace], timeout=3000)
    if send_ok:
        rc, out = run([binpath("release", "sendsync")], timeout=60)
        with open(trace, "a") as f:
            f.write(out)
    r2, events, bad = validate_independent(chk, "TraceWorkers", trace, "TraceWorkers", heap="8g", timeout=3000)
    counts = {}
    for e in events:
        op = e[7:e.index('"', 7)]
        counts[op] = counts.get(op, 0) + 1
    if counts.get("inter", 0) < want or counts.get("thread", 0) < 16 or counts.get("solo", 0) < 40 or counts.get("storm", 0) < 16:
        raise ToolError("recorder produced too few events: %s" % counts)
    evs = None
    for i in bad:
        ev = json.loads(events[i - 1])
        if ev["op"] == "inter":
            cfgs = [json.loads(events[j - 1]) for j in ev["ids"]]
            sig = {"op": "inter", "sched": ev["sched"], "flops": [c["flop"] for c in cfgs]}
            chk.violation("interleaved iteration differs from the solo runs: schedule %s over evaluators with flops %s" % (ev["sched"][:40], sig["flops"]),
                          sig, {"gen": ["c15"], "event": ev, "solos": [{k: c[k] for k in ("flop", "ranges", "from", "to", "items")} for c in cfgs]})
        elif ev["op"] == "bigthread":
            c = json.loads(events[ev["id"] - 1])
            chk.violation("a long run (%d showdowns) drained on one of 16 concurrent threads differs from the same evaluator drained alone (flop %s): digest %s vs %s" %
                          (c["digest"][2], c["flop"], ev["digest"], c["digest"]), {"op": "bigthread", "flop": c["flop"]}, {"gen": ["c15"], "event": ev, "solo": {k: c[k] for k in ("flop", "from", "to", "digest")}})
        elif ev["op"] == "thread":
            c = json.loads(events[ev["id"] - 1])
            chk.violation("an evaluator drained on a concurrent thread differs from its solo run (flop %s)" % c["flop"],
                          {"op": "thread", "flop": c["flop"]}, {"gen": ["c15"], "event": ev, "solo": c})
        else:
            chk.violation("solo run failed: %s" % events[i - 1][:300], {"op": ev["op"]}, {"gen": ["c15"], "event": ev})
    for i in (0, 45, 1800):
        chk.sample(events[min(i, len(events) - 1)][:500])
    chk.exhaustive = False
    chk.assumptions = ["preemption inside a call is not modelled: there is no shared variable for it to act on, which is what the interleaving replay, "
                       "the concurrent threads and the Send + Sync assertions test"]
    return chk.finish(rule="solo run of each of 40 configurations in its own child process; every interleaving of 3 live iterators x %d calls (enumerated by TLC) and random "
                           "schedules over 2-6 iterators replayed on one thread; 16 concurrent threads x rounds each draining its own evaluator; a construction storm (16 threads x %d evaluators over different flops built, drained, dropped); compile-time Send + Sync" % (4 if thorough else 3, 40000 if thorough else 8000),
                      extra={"event_counts": counts, "schedules_from_tlc": len(set(scheds))})


CHECKS = {"C15": c15}
