#!/bin/sh
# developer aid: run every check of one tier in sequence and print one summary line each
tier=${1:-quick}
cd "$(dirname "$0")/.."
[ -x harness/target/release/hx ] || ./setup.sh >/dev/null 2>&1
for p in C13 C14 C01 C07 C03 C02 C08 C04 C16 C11 C15 C05 C09 C10 C12 C06 C17; do
  s=$(date +%s)
  out=$(timeout 7200 ./check $p --tier $tier 2>&1); rc=$?
  e=$(date +%s)
  echo "$p rc=$rc $((e-s))s :: $(echo "$out" | grep -E '^== .* (ok|FAILED)|^TOOL-ERROR|^VIOLATION|KNOWN-FINDING' | head -3 | tr '\n' ' ' | cut -c1-300)"
done
