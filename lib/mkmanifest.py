#!/usr/bin/env python3
"""regenerates MANIFEST.json from the table below (kept next to the checks so they cannot drift apart)"""
import json, os
V = os.path.dirname(os.path.dirname(os.path.abspath(__file__)))
ALL = ["C%02d" % i for i in range(1, 18)]
CLAIMED = {
 "C13": dict(
   text="Exhaustive: the quantifier of this property is finite (52 cards, 13 ranks, 4 suits, 16,513 short ASCII strings, all ordered pairs, all ranges) and every element is recorded from the real library and validated by TLC against the tables of Cards.tla in the quick tier.",
   note="Trusted: the harness projection (card id = position in a table built from enum variants), TLC, the JSON reader of the CommunityModules. Reversed range endpoints are read as outside the statement.",
   technique="TLA+ tables (Cards.tla) + TLC trace validation of the complete observable table", ref="DESIGN.md 5/C13"),
 "C14": dict(
   text="Exhaustive: all 2,652 ordered pairs of distinct cards are built in both orders on the real library; equality, std and Fx hashes, canonical order, text, re-parse of both textual orders and map insertion are validated by TLC against Pair/PairText of Cards.tla.",
   note="Trusted: harness projection, TLC. Hash equality is observed for two hashers, not for every possible Hasher.",
   technique="TLA+ tables (Cards.tla) + TLC trace validation over all ordered pairs", ref="DESIGN.md 5/C14"),
}
def main():
    checks = []
    for pid in ALL:
        if pid not in CLAIMED: continue
        c = CLAIMED[pid]
        checks.append({
          "property_id": pid,
          "quick_cmd": "./check %s --tier quick" % pid,
          "thorough_cmd": "./check %s --tier thorough" % pid,
          "evidence_file": "evidence/%s.json" % pid,
          "replay_cmd_template": "./check %s --replay {path}" % pid,
          "engine": "tlc",
          "level_claimed": {"category": c.get("cat", "model_checking"), "text": c["text"], "design_ref": c["ref"]},
          "level_note": c["note"],
          "technique": c["technique"],
        })
    m = {
      "version": 1,
      "setup_cmd": "./setup.sh",
      "hooks": {
        "guard": "espada_verif",
        "enable": "RUSTFLAGS='--cfg espada_verif' via /verif/harness/.cargo/config.toml (the harness is the only crate built with it)",
        "baseline_off_cmd": "cd /repo && cargo test --workspace --no-fail-fast --offline",
        "source_commits": [],
        "add_only": True,
      },
      "engines": [{"name": "tlc", "path": "spec/", "serves_properties": sorted(CLAIMED), "kind_free_text": "TLA+ specification checked with TLC; Rust conformance harness (harness/) records traces of /repo and replays TLC-generated cases"}],
      "checks": checks,
      "notes": "All checks: ./check <id> --tier quick|thorough; exit 2 = tool problem, never a verdict. DESIGN.md explains the approach.",
      "not_applicable": [{"property_id": p, "reason": "check not built yet in this round (work in progress; the specification is planned to cover it, see DESIGN.md section 5)"} for p in ALL if p not in CLAIMED],
    }
    json.dump(m, open(os.path.join(V, "MANIFEST.json"), "w"), indent=1)
main()
