#!/usr/bin/env python3
"""regenerates MANIFEST.json from the table below (kept next to the checks so they cannot drift apart)"""
import json, os
V = os.path.dirname(os.path.dirname(os.path.abspath(__file__)))
ALL = ["C%02d" % i for i in range(1, 18)]
CLAIMED = {
 "C01": dict(
   text="TLC checks on all 7,462 classes that the closed-form class number equals the position in the order defined by the rules of poker, evaluates the best class of every one of the 49,205 rank keys and 4,719 flush keys, checks the flush scan for all 4^7 suit orders and the key abstraction on every 7-subset of reduced decks. Binding: concrete hands for every key plus random hands and comparison pairs are evaluated by the real code and validated by TLC from raw card ids (best of 21 subsets); the real evaluator is run on all 133,784,560 sets in sampled presentation orders against the table TLC exported. Exhaustive over sets and keys, sampled over the 7! orders per set.",
   note="Trusted: Poker.tla's reading of the rules (anchored by closed form = order-based definition and by the published 7-card category frequencies, both re-checked), the harness projection, TLC. Orders per set are sampled (16 quick / 128 thorough of 5040).",
   technique="TLA+ rules-of-poker spec model-checked with TLC; trace validation per abstract key; exhaustive sweep against the TLC-exported table", ref="DESIGN.md 5/C01"),
 "C02": dict(
   text="TLC checks that the implementation-shaped odometer model (FlopOdometer) refines the property-level enumeration (FlopEnum: every legal deal of every position exactly once, positions in order, nothing else), terminates and never panics, exhaustively on a small-scope family embedded in the real deck's tail window (745k states quick). Binding: the same family and randomised real-size configurations (1-4 players, overlapping dyadic-weighted ranges, windows at starts/rollovers/end, complete runs, ranges of 255..1326 combos) are drained on the real evaluator and every yield is validated by TLC as a FlopEnum step, with the count of each completed position checked against the number of legal deals.",
   note="Trusted: FlopEnum's reading of 'legal deal', the harness projection (card ids, exact dyadic decomposition of the probability), TLC. Order of deals inside one position is left open. Sampled at real size, exhaustive only on the small-scope family.",
   technique="TLA+ refinement FlopOdometer => FlopEnum with TLC; sequential trace validation of real runs against FlopEnum", ref="DESIGN.md 5/C02"),
 "C03": dict(
   text="TLC checks the single-pass winner computation against the arg-min definition for every class vector of up to 6 players over 4 classes (all two-way and multi-way tie patterns) at every step. Binding: Showdown::new on random boards with 1-10 players, dense-tie rank bands, board-plays-for-everyone, constructed k-way ties and board collisions; TLC recomputes every strength from raw cards and checks order, own seven cards, flags = exactly the strongest, winner_len, echoed probability, None on board collision.",
   note="Trusted: Poker.tla (checked by C01), harness projection, TLC. Randomised at real size; tie patterns exhaustive at design level.",
   technique="TLA+ showdown spec model-checked with TLC; trace validation of Showdown::new", ref="DESIGN.md 5/C03"),
 "C08": dict(
   text="TLC checks NoPanic, a re-entry depth bound and termination (liveness under weak fairness, no state constraint) of the odometer model on the small-scope family incl. empty ranges. Binding: configurations (empty ranges, sizes 1..1326 around the 256/512 boundaries, a one-combo range blocked for a whole turn beside 250/1326 combos, everything blocked, 3-4 players, random wide ranges) are drained in child processes on a 2 MiB thread in a dev (overflow checks) and a release build; TLC validates outcome = ok, count = number of legal deals, None sticky.",
   note="Trusted: the child's exit path as the observation of panics/stack exhaustion; stack bytes are not modelled. Inputs sampled.",
   technique="TLA+ odometer model (invariants + liveness) with TLC; trace validation of child-process drains in two build profiles", ref="DESIGN.md 5/C08"),
 "C04": dict(
   text="TLC proves the tiling theorem of Scopes.tla for every valid chain of up to 4 scopes over every run shape on a small deck, and checks the odometer's stop test against the lexicographic window for every (from,to) pair of the real deck's tail window. Binding: for the suite's configuration and random ones, the unscoped run and a scoped run from every one of the 1176 start positions (ends at the same position, the next rollover, random distances, the terminal), ends adjacent to every rollover, repeated scope() calls, further next() calls after None and random chains are executed on the real evaluator; TLC compares each scoped run with the window of the unscoped run, position by position.",
   note="Trusted: harness projection, TLC. Scope ends are positions or the terminal (48,49); other end values are outside the statement. Ends per start are sampled.",
   technique="TLA+ Scopes spec (tiling theorem) + odometer refinement with TLC; trace validation of scoped vs unscoped real runs", ref="DESIGN.md 5/C04"),
 "C16": dict(
   text="ValidChain => tiling is checked by TLC on Scopes.tla. Binding: calculate_scopes(n), compiled from the example's source by path, is run for every n up to 600 (1024 thorough) and sampled n up to 2^20; TLC validates each result as a valid chain of n scopes (starts at (0,1), ends at (48,49), contiguous, monotone, only valid positions); for sampled n the chain is executed on the real evaluator and must add up to the unscoped run.",
   note="Trusted: harness projection, TLC. The f32 arithmetic is observed per n, not modelled, so worker counts beyond those run are not covered.",
   technique="TLA+ Scopes spec with TLC; trace validation of calculate_scopes outputs", ref="DESIGN.md 5/C16"),
 "C05": dict(
   text="TLC checks the laws of the denotation in Notation.tla (the 169 rank pairs partition the 1326 combos, sizes 6/4/12, 'X+' and spans are unions of singles, token text reads back as the token, last-writer-wins on lists) and exports all 3,796 well-formed token bodies. Binding: every body (x 2 weight literals quick, x 9 thorough) is parsed by the real code as a token and as a one-token range, plus random lists of overlapping tokens with spaces and the empty string; TLC recomputes the denotation and compares combo for combo and weight bit for weight bit. Exhaustive over tokens, sampled over lists.",
   note="Trusted: Notation.tla's reading of the standard notation, Rust's own f32 parser for the expected weight bits of a literal, harness projection, TLC.",
   technique="TLA+ denotation spec checked with TLC; TLC-exported token set replayed on the parser; trace validation", ref="DESIGN.md 5/C05"),
 "C09": dict(
   text="TLC explores the byte-accurate parser model (ParserShape) for every string up to length 4 (5 thorough) over a 22-character alphabet incl. 2-, 3- and 4-byte characters: no panic reachable, no invalid value let through. Binding: every string up to length 3 (4 thorough) over the same alphabet, shape-valid tokens over five ranks with 17 weight suffixes and their single-character edits, comma lists, random Unicode and over-long input are fed to the six real parsers, and every Ok value through expansion, formatting, splitting and a two-position enumeration; TLC validates that nothing panicked and reports (without a verdict) where the implementation-shaped model predicts a different outcome.",
   note="Trusted: catch_unwind as the observation of a panic, harness, TLC. Strings are bounded/sampled; acceptance of malformed tokens is not constrained.",
   technique="TLA+ byte-level parser model checked with TLC; trace validation of real parser outcomes", ref="DESIGN.md 5/C09"),
 "C10": dict(
   text="ParserShape's OnlyValid invariant (no weight above 1, no equal-card pair accepted) is checked by TLC on all bounded strings. Binding: every Ok result of the C05 corpus (all well-formed tokens x literals, lists) and of the C09 corpus (incl. suffixes :1.5, :1.75, :1.00000001, :2, equal-card pairs, edits, Unicode) is recorded with card ids and weight bits; TLC checks two different cards and weight bits within [0, 1.0]; showdowns enumerated from the parsed ranges must have distinct cards and a probability in [0,1].",
   note="Trusted: f32::to_bits as the lossless view of a weight (non-negative floats order like their bits), harness, TLC. Strings are bounded/sampled.",
   technique="TLA+ parser model + ValidRange invariant with TLC; trace validation of parsed values", ref="DESIGN.md 5/C10"),
 "C06": dict(
   text="TLC checks the run-merging scanner model (RowFmt) for every row of every length up to 10 (13 thorough): reading the emitted tokens back gives the row. Binding: ranges built from every absent/a/b pattern of every short suited/offsuit row, structured and random patterns of the long rows and the pocket row, all partial patterns inside one rank pair, random structured ranges, with weights incl. 0, a subnormal, 1-ulp, random bit patterns in [0,1] and -0.0, are formatted and re-parsed by the real code; TLC compares the re-parsed map with the original bit for bit. Every well-formed token's text is parsed back and compared too.",
   note="Trusted: f32::to_bits as the view of a weight, harness, TLC; the f32-to-decimal conversion is Rust's and is observed, not modelled. Known finding (not repaired): weight -0.0 prints ':-0' and is dropped on re-parsing - listed in known_findings.json by exact input.",
   technique="TLA+ scanner model checked with TLC for all rows; trace validation of format/re-parse round trips", ref="DESIGN.md 5/C06"),
 "C12": dict(
   text="TLC checks that the implementation's probe-one-combo-then-all() test equals the definition (all combos present with one weight) for all 3^4, 3^6 and 3^12 patterns of one rank pair. Binding: for sampled rank pairs all 729 / 81 patterns and the <=2-deviation family plus random patterns of the 3^12, row patterns and random whole ranges are split by the real code; TLC recomputes the complete rank pairs and the leftovers from the logged contents and compares rank_pairs() and orphan_card_pairs() with them (exact sets, weights bit for bit, partition).",
   note="Trusted: RangeFmt.tla's definition of 'complete', harness, TLC. Mixed +0.0/-0.0 inside one rank pair and NaN weights are not generated (f32 == vs bit equality).",
   technique="TLA+ definition vs implementation-shaped test with TLC; trace validation of the split", ref="DESIGN.md 5/C12"),
 "C17": dict(
   text="TLC checks Canonical (one token per maximal run, nothing mergeable) for every row of every length up to 10 (13 thorough) on the scanner model, and enumerates every construction history up to depth 3 over a small universe (RangeBuild). Binding: those histories (executed by parse and by collect()), every pattern of the short rows, and random ranges rebuilt along 6 (16) shuffled collect / insert-and-overwrite histories are formatted by the real code; TLC recomputes the maximal runs from the logged contents and requires one token per run in the stated order (pockets, then per high card suited then offsuit, then leftovers), each denoting exactly its run with its weight, leftovers = orphans, and identical text for identical contents.",
   note="Trusted: RangeFmt.tla's definition of rows and runs, harness (groups equal contents; TLC re-checks equality), TLC. Spelling of a run ('X+' vs 'X-Y') and leftover order are compared only at implementation level (MODEL-DRIFT note, no verdict).",
   technique="TLA+ canonical-text spec + history enumeration with TLC; trace validation of to_string()", ref="DESIGN.md 5/C17"),
 "C07": dict(
   text="Category boundaries of the class numbering are derived from the rules by TLC (MCPoker); hand_type() of concrete hands for every key - hence every one of the 4,824 reachable classes including the first and last of each category - is validated by TLC against the category of Eval7(cards), and hand_type() is compared on all 133,784,560 sets with the TLC-exported categories. Exhaustive.",
   note="Trusted: Poker.tla, harness projection (category compared through its Debug name), TLC.",
   technique="TLA+ rules-of-poker spec; TLC trace validation over all keys; exhaustive sweep", ref="DESIGN.md 5/C07"),
 "C11": dict(
   text="Design level: TLC checks on the specification itself (FlopEnum legality + Eval7 + Winners over all boards from the eight treys and deuces) that per-player tallies of k-way wins are invariant under all 24 suit permutations and covariant under seat permutations. Binding: for random, flush-heavy and chop-prone base configurations the complete run and its images under suit and seat permutations are executed on the real evaluator; TLC checks that each image configuration is the image, that each showdown's winner flags equal winner_len >= 1 (shares add up to one pot), that the README-loop tallies equal the pattern counts, and that image tallies are the permuted base tallies.",
   note="Trusted: harness projection and its README-style integer loop (cross-checked against the win patterns by TLC), TLC. Bases are sampled; 8 of 24 suit permutations per base in quick, all 24 in thorough.",
   technique="TLA+ symmetry theorem model-checked with TLC; trace validation of paired complete runs", ref="DESIGN.md 5/C11"),
 "C15": dict(
   text="TLC enumerates every interleaving of next() calls over 3 live iterators x 3 calls (1,680 schedules; 34,650 with 4 calls in thorough) from Workers.tla; each schedule, plus random schedules over 2-6 iterators, is replayed on one thread against live real iterators and compared by TLC with each evaluator's solo sequence, which is recorded in a child process of its own. 16 concurrent threads each drain their own evaluator (inputs shared through Arc) and are compared the same way. Send + Sync of every public type is asserted at compile time.",
   note="Trusted: harness projection, TLC, the OS scheduler for the thread runs (not controlled). Preemption inside a call is not modelled.",
   technique="TLA+ Workers spec: TLC-enumerated interleavings replayed on the implementation; trace validation against solo runs", ref="DESIGN.md 5/C15"),
 "C13": dict(
   text="Exhaustive: the quantifier of this property is finite (52 cards, 13 ranks, 4 suits, 16,513 short ASCII strings, all ordered pairs, all ranges) and every element is recorded from the real library and validated by TLC against the tables of Cards.tla in the quick tier.",
   note="Trusted: the harness projection (card id = position in a table built from enum variants), TLC, the JSON reader of the CommunityModules. Reversed range endpoints are read as outside the statement.",
   technique="TLA+ tables (Cards.tla) + TLC trace validation of the complete observable table", ref="DESIGN.md 5/C13"),
 "C14": dict(
   text="Exhaustive: all 2,652 ordered pairs of distinct cards are built in both orders on the real library; equality, std and Fx hashes, canonical order, text, re-parse of both textual orders and map insertion are validated by TLC against Pair/PairText of Cards.tla.",
   note="Trusted: harness projection, TLC. Hash equality is observed for two hashers, not for every possible Hasher.",
   technique="TLA+ tables (Cards.tla) + TLC trace validation over all ordered pairs", ref="DESIGN.md 5/C14"),
}
def main():
    checks = []
    for pid in ALL:
        if pid not in CLAIMED: continue
        c = CLAIMED[pid]
        checks.append({
          "property_id": pid,
          "quick_cmd": "./check %s --tier quick" % pid,
          "thorough_cmd": "./check %s --tier thorough" % pid,
          "evidence_file": "evidence/%s.json" % pid,
          "replay_cmd_template": "./check %s --replay {path}" % pid,
          "engine": "tlc",
          "level_claimed": {"category": c.get("cat", "model_checking"), "text": c["text"], "design_ref": c["ref"]},
          "level_note": c["note"],
          "technique": c["technique"],
        })
    m = {
      "version": 1,
      "setup_cmd": "./setup.sh",
      "hooks": {
        "guard": "espada_verif",
        "enable": "RUSTFLAGS='--cfg espada_verif --check-cfg cfg(espada_verif)' on the one cargo invocation that builds the hook recorder (harness feature 'hook', target directory harness/target-hook; see setup.sh and lib/p_flop.py:_odometer_binding). The main harness - every check and every verdict - is built WITHOUT the guard, against /repo exactly as a user builds it, so a change to internals that the guarded accessors read cannot stop the checks from building; if the hook build fails the implementation-level binding is skipped with a note",
        "baseline_off_cmd": "cd /repo && cargo test --workspace --no-fail-fast --offline",
        "source_commits": ["33b8beb"],
        "add_only": True,
      },
      "engines": [{"name": "tlc", "path": "spec/", "serves_properties": sorted(CLAIMED), "kind_free_text": "TLA+ specification checked with TLC; Rust conformance harness (harness/) records traces of /repo and replays TLC-generated cases"}],
      "checks": checks,
      "notes": "All checks: ./check <id> --tier quick|thorough; exit 2 = tool problem, never a verdict. DESIGN.md explains the approach.",
      "not_applicable": [{"property_id": p, "reason": "check not built yet in this round (work in progress; the specification is planned to cover it, see DESIGN.md section 5)"} for p in ALL if p not in CLAIMED],
    }
    json.dump(m, open(os.path.join(V, "MANIFEST.json"), "w"), indent=1)
main()
