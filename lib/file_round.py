#!/usr/bin/env python3
"""Developer aid (never registered): confirm the changes a round of sub-agents left under /tmp/mut/<PFX>Cxx-out/{A,B,C}
in their scratch worktrees (lib/confirm_seed.sh) and file the confirmed ones under /verif/seeded/<tag>-Cxx-V/.

  lib/file_round.py R5 r5 "origin text" [C01 C02 ...]
"""
import json, os, re, shutil, subprocess, sys
from concurrent.futures import ThreadPoolExecutor

V = os.path.dirname(os.path.dirname(os.path.abspath(__file__)))
pfx, tag, origin = sys.argv[1:4]
ids = sys.argv[4:] or ["C%02d" % i for i in range(1, 18)]


def one(i):
    out = []
    for v in "ABC":
        src = "/tmp/mut/%s%s-out/%s" % (pfx, i, v)
        if not os.path.exists(src + "/patch.diff"):
            out.append((i, v, "missing", "")); continue
        r = subprocess.run(["sh", V + "/lib/confirm_seed.sh", i, v], env=dict(os.environ, PFX=pfx), stdout=subprocess.PIPE, stderr=subprocess.STDOUT, text=True)
        line = r.stdout.strip().splitlines()[-1] if r.stdout.strip() else ""
        suite_ok = "suite-with-change: [test result: ok. 1229 passed" in line
        m = re.search(r"clean: \[(.*?)\]", line); clean_ok = bool(m and m.group(1).startswith("test result: ok"))
        m = re.search(r"demo-with-change: \[(.*)\]$", line); demo = m.group(1) if m else ""
        demo_fails = not demo.startswith("test result: ok")
        ok = suite_ok and clean_ok and demo_fails
        if ok:
            d = "%s/seeded/%s-%s-%s" % (V, tag, i, v)
            os.makedirs(d, exist_ok=True)
            for f in ("patch.diff", "demo.rs", "notes.md"):
                if os.path.exists(src + "/" + f):
                    shutil.copy(src + "/" + f, d + "/" + f)
            notes = open(src + "/notes.md").read() if os.path.exists(src + "/notes.md") else ""
            title = next((x[2:] for x in notes.splitlines() if x.startswith("# ")), "")
            json.dump({"id": "%s-%s-%s" % (tag, i, v), "breaks": i, "origin": origin, "needs": title[:400],
                       "confirmed": "in the scratch worktree: patch applied -> cargo test --workspace --offline: 1229 passed, demo fails (%s); patch reverted -> demo passes" % demo[:120]},
                      open(d + "/meta.json", "w"), indent=1)
        out.append((i, v, "CONFIRMED" if ok else "REJECTED", line))
    return out


with ThreadPoolExecutor(max_workers=6) as ex:
    for res in ex.map(one, ids):
        for i, v, st, line in res:
            print("%s/%s %s  %s" % (i, v, st, line[-260:]), flush=True)
