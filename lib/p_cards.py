"""C13 (encodings) and C14 (unordered hole-card pair): the complete observable table of the real
library is recorded as one trace of independent events and validated by TLC against Cards.tla."""
import json
from vlib import *


def _common(chk, opts, cmd, expect, rule):
    build("release")
    r = tlc("MCCards", workers=2, timeout=300)
    chk.add_tlc(r, "MCCards(TablesOK)")
    trace = chk.path(cmd + ".ndjson")
    hx([cmd, "--out", trace])
    res, events, bad = validate_independent(chk, "TraceCards", trace, "TraceCards(" + cmd + ")")
    counts = {}
    for e in events:
        op = json.loads(e)["op"]
        counts[op] = counts.get(op, 0) + 1
    lower = {k: v for k, v in expect.items() if isinstance(v, tuple)}
    exact = {k: v for k, v in expect.items() if not isinstance(v, tuple)}
    if {k: counts.get(k) for k in exact} != exact or any(counts.get(k, 0) < v[0] for k, v in lower.items()) or set(counts) - set(expect):
        raise ToolError("recorder produced %s, expected %s" % (counts, expect))
    for i in bad:
        ev = json.loads(events[i - 1])
        sig = {k: ev[k] for k in ev if k in ("op", "id", "bit", "s", "a", "b", "kind", "form", "c", "r", "route", "h", "k", "first", "second")}
        chk.violation("event %d not allowed by Cards.tla: %s" % (i, events[i - 1][:300]), sig,
                      {"gen": [cmd], "events": [ev]})
    for i in (1, len(events) // 3, len(events) // 2, len(events) - 1):
        chk.sample(events[i])
    if opts.get("selftest"):
        selftest(chk, trace, events)
    chk.exhaustive = True
    return chk.finish(rule=rule, extra={"event_counts": counts})


def selftest(chk, trace, events):
    """binding demo: corrupt one recorded field per op, every corrupted event must be rejected"""
    seen, mutated = set(), []
    for e in events:
        ev = json.loads(e)
        if ev["op"] in seen:
            continue
        seen.add(ev["op"])
        for k in ("tz", "out", "rank", "u8", "cmp", "first", "s"):
            if k in ev:
                if isinstance(ev[k], list):
                    ev[k] = ev[k] + [7]
                else:
                    ev[k] = ev[k] + 1
                break
        mutated.append(json.dumps(ev))
    p = chk.path("selftest.ndjson")
    open(p, "w").write("\n".join(mutated) + "\n")
    r = tlc("TraceCards", env={"TRACE": p}, workers=2)
    if len(r.bad) != len(mutated):
        raise ToolError("selftest: %d corrupted events, %d rejected" % (len(mutated), len(r.bad)))
    chk.note("selftest: %d corrupted events all rejected" % len(mutated))


def c13(chk, opts):
    expect = {"c2u": (52,), "u2c": (52,), "convsum": 1, "ctext": 52, "cpad": 260, "cparts": 52, "cparse": (1 + 128 + 2 * 128 * 128,), "rank": 13, "suit": 4,
              "rchar": 128, "schar": 128, "cmp": 169 + 16 + 2704, "range": 4 * 91 + 2 * 10 + 2}
    return _common(chk, opts, "c13", expect,
                   "complete finite table: 52 cards x (word, text, parts), all 16,513 ASCII strings of length <= 2 as a card, "
                   "each two-character string again after one card text, and after every one of the 52 card texts (differences logged), all ASCII characters as rank/suit, all ordered pairs of ranks/suits/cards compared, every rank/suit range "
                   "with start <= end; one event per call, distinct by construction")


def c14(chk, opts):
    return _common(chk, opts, "c14", {"pair": 2652, "twin": 1872, "route": (7000,), "text2": (2652,), "cpar": (0,), "cparsum": 2},
                   "all 52 x 51 ordered pairs of distinct cards: construction in both orders, equality, two hashers, "
                   "canonical order, text, parse of both textual orders, map insertion; for the 1,872 pairs of different rank and suit: the text, "
                   "its suit-swapped twin and the text again parsed back to back; every pair value obtained through RankPair::into_iter (both "
                   "rank orders), a parsed single-rank-pair token and a parsed range must be the canonical value of its two cards")


CHECKS = {"C13": c13, "C14": c14}
