"""Tables exported by TLC from the specification (spec/gen/, not committed; rebuilt by setup and on demand)."""
import hashlib, json, os, re
from vlib import *


def _stamp(mods):
    h = hashlib.sha256()
    for m in mods:
        h.update(open(os.path.join(SPEC, m + ".tla"), "rb").read())
    return h.hexdigest()


def poker_tables(force=False, chk=None):
    """run MCPoker: closed form == rules on all 7462 classes, best class of every key; export the tables.
    returns the TlcResult when TLC was run, else None"""
    os.makedirs(GEN, exist_ok=True)
    stamp = _stamp(["Poker", "MCPoker"])
    sf = os.path.join(GEN, "poker.stamp")
    if not force and os.path.exists(sf) and open(sf).read() == stamp and os.path.exists(os.path.join(GEN, "class5.json")):
        return None
    r = tlc("MCPoker", workers=TLC_WORKERS, timeout=1500, heap="6g")
    n5, s5, k7, f7 = {}, {}, {}, {}
    cat = {}
    for kind, tup, c, ct in re.findall(r'^<<"([NSKF])", <<([0-9, ]+)>>, (\d+)(?:, (\d+))?>>\s*$', r.raw, re.M):
        t = tuple(int(x) for x in tup.split(","))
        {"N": n5, "S": s5, "K": k7, "F": f7}[kind][t] = int(c)
        if ct:
            cat[(kind, t)] = int(ct)
    if (len(n5), len(s5), len(k7), len(f7)) != (6175, 1287, 49205, 4719):
        raise ToolError("MCPoker export incomplete: %s" % ((len(n5), len(s5), len(k7), len(f7)),))
    if sorted(set(n5.values()) | set(s5.values())) != list(range(1, 7463)):
        raise ToolError("MCPoker: classes are not exactly 1..7462")

    def code(t):
        x = 0
        for v in t:
            x = x * 13 + v
        return x
    nf = [0] * (13 ** 5)
    fl = [0] * (13 ** 5)
    for t, c in n5.items():
        nf[code(t)] = c
    for t, c in s5.items():
        fl[code(t)] = c
    json.dump({"nf": nf, "fl": fl}, open(os.path.join(GEN, "class5.json"), "w"), separators=(",", ":"))
    with open(os.path.join(GEN, "keys.ndjson"), "w") as f:
        for t, c in sorted(k7.items()):
            f.write('{"k":"K","r":%s,"c":%d,"t":%d}\n' % (json.dumps(list(t), separators=(",", ":")), c, cat[("K", t)]))
        for t, c in sorted(f7.items()):
            f.write('{"k":"F","r":%s,"c":%d,"t":%d}\n' % (json.dumps(list(t), separators=(",", ":")), c, cat[("F", t)]))
    open(sf, "w").write(stamp)
    return r


def ensure_all():
    r = poker_tables()
    if r:
        log("gen: poker tables exported by TLC (%d states, %.0fs)" % (r.distinct, r.wall))
