"""C03: a showdown flags exactly the strongest hands."""
import json
from vlib import *
import gen


def c03(chk, opts):
    thorough = chk.tier == "thorough"
    build("release")
    gen.ensure_all()
    r = tlc("Showdown", timeout=600, coverage=False)
    chk.add_tlc(r, "Showdown(single pass = argmin, <=6 players)")
    trace = chk.path("showdown.ndjson")
    hx(["showdown", "--seed", chk.seed, "--n", 60000 if thorough else 10000, "--volume", 6000000 if thorough else 1000000, "--out", trace])
    r, events, bad = validate_independent(chk, "TraceShowdown", trace, "TraceShowdown", heap="8g", timeout=3000)
    stats = {"none": 0, "ties2": 0, "ties3plus": 0, "all_tie": 0, "players": {}}
    for e in events:
        ev = json.loads(e)
        if ev["op"] == "volume":
            stats["volume_calls"] = ev["calls"]
            stats["volume_deviating"] = ev["deviating"]
            continue
        n = len(ev["players"])
        stats["players"][n] = stats["players"].get(n, 0) + 1
        if any(c in ev["board"] for pl in ev["players"] for c in pl):
            stats["none"] += 1          # input with a hole card on the board (counted on the input, not on the outcome)
        if ev["none"] == 0:
            if ev["wl"] == 2: stats["ties2"] += 1
            if ev["wl"] >= 3: stats["ties3plus"] += 1
            if ev["wl"] == n and n > 1: stats["all_tie"] += 1
    for i in bad:
        ev = json.loads(events[i - 1])
        if ev["op"] != "showdown":
            continue
        chk.violation("showdown not allowed by the specification: %s" % events[i - 1][:400],
                      {"op": "showdown", "board": ev["board"], "players": ev["players"]}, {"gen": ["showdown"], "events": [ev]})
    # vacuity guard: tie statistics come from recorded results, so they are only meaningful when TLC accepted every event
    if not chk.violations and (stats["ties3plus"] < 20 or stats["none"] < 20 or stats["all_tie"] < 20 or len(stats["players"]) < 10):
        raise ToolError("vacuity: the recorded showdowns lack ties/collisions: %s" % stats)
    for i in (0, 4, 7, 21):
        chk.sample(events[i])
    if opts.get("selftest"):
        mut = []
        for e in events[:40]:
            ev = json.loads(e)
            if ev["none"] == 0 and len(ev["players"]) > 1:
                a = dict(ev); a["win"] = [1 - ev["win"][0]] + ev["win"][1:]; mut.append(a)
                b = dict(ev); b["wl"] = ev["wl"] + 1; mut.append(b)
        p = chk.path("selftest.ndjson")
        open(p, "w").write("\n".join(json.dumps(m) for m in mut) + "\n")
        rr = tlc("TraceShowdown", env={"TRACE": p}, workers=2, heap="4g")
        if len(rr.bad) != len(mut):
            raise ToolError("selftest: %d corrupted, %d rejected" % (len(mut), len(rr.bad)))
        chk.note("selftest: %d corrupted events all rejected" % len(mut))
    chk.exhaustive = False
    return chk.finish(rule="Showdown::new on random boards with 1..10 players, rank-band boards (dense ties), board-plays-for-everyone, "
                           "same-ranks-different-suits k-way ties mixed with random players, and hole cards on the board; every strength "
                           "recomputed by TLC from raw cards; the single-pass design is model-checked for every tie pattern of <= 6 players",
                      extra={"stats": stats})


CHECKS = {"C03": c03}
