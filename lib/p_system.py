"""SYS: system-level trace validation (not one of the listed properties; growth of the specification).
Mixed public API calls on many live handles are recorded as one sequential trace per seed and validated
against spec/Espada.tla through spec/TraceEspada.tla."""
import json
from concurrent.futures import ThreadPoolExecutor
from vlib import *
import p_notation
from p_flop import SEQ


def sys_check(chk, opts):
    thorough = chk.tier == "thorough"
    build("release")
    tokens = p_notation._tokens(chk, "MCNotation(bodies)")
    seeds = [chk.seed * 100 + k for k in range(12 if thorough else 4)]
    traces = []
    for sd in seeds:
        t = chk.path("sys-%d.ndjson" % sd)
        hx(["system", "--seed", sd, "--steps", 6000 if thorough else 3000, "--tokens", tokens, "--out", t])
        traces.append(t)

    def work(t):
        return tlc("TraceEspada", cfg="TraceEspada.cfg", env={"TRACE": t}, timeout=3000, heap="4g", allow_violation=True, **SEQ)
    with ThreadPoolExecutor(max_workers=len(traces)) as ex:
        results = list(ex.map(work, traces))
    counts = {}
    for t, r in zip(traces, results):
        events = read_events(t)
        chk.add_tlc(r, "TraceEspada(%s)" % os.path.basename(t))
        chk.events += len(events)
        chk.traces += 1
        for e in events:
            op = e[7:e.index('"', 7)]
            counts[op] = counts.get(op, 0) + 1
        m = re.search(r'<<"REJECTED", (\d+)>>', r.raw)
        if m:
            d = int(m.group(1))
            ev = json.loads(events[d - 1])
            chk.violation("system trace %s: event %d (%s) is not an enabled action of Espada.tla: %s" % (os.path.basename(t), d, ev["op"], events[d - 1][:300]),
                          {"op": ev["op"], "trace": os.path.basename(t), "line": d}, {"gen": ["system"], "event": ev, "line": d})
        elif r.violated or r.error or r.distinct < len(events) + 1:
            raise ToolError("TraceEspada failed on %s\n%s" % (t, tail(r.raw)))
        if "failed" in counts:
            raise ToolError("the driver recorded failed calls: %s" % counts)
    chk.sample(read_events(traces[0])[0][:400])
    chk.sample(read_events(traces[0])[-1][:400])
    if opts.get("selftest"):
        ev = read_events(traces[0])
        k = next(i for i, e in enumerate(ev) if e.startswith('{"op":"next"'))
        bad = json.loads(ev[k]); bad["win"] = [1 - bad["win"][0]] + bad["win"][1:]
        p = chk.path("selftest.ndjson")
        open(p, "w").write("\n".join(ev[:k] + [json.dumps(bad)] + ev[k + 1:]) + "\n")
        r = tlc("TraceEspada", cfg="TraceEspada.cfg", env={"TRACE": p}, allow_violation=True, heap="4g", **SEQ)
        if ('<<"REJECTED", %d>>' % (k + 1)) not in r.raw:
            raise ToolError("selftest: corrupted winner flag at event %d was not rejected there" % (k + 1))
        chk.note("selftest: a flipped winner flag at event %d is rejected at that event" % (k + 1))
    # evidence goes to work/, not to evidence/: SYS is not a listed property
    rc = chk.finish(rule="random mixed-API drivers (parse / collect / format / split / new evaluator / scope / into_iter / interleaved next) on many live handles",
                    extra={"event_counts": counts, "traces": len(traces)})
    os.replace(os.path.join(VERIF, "evidence", "SYS.json"), os.path.join(WORKROOT, "SYS-evidence.json"))
    return rc


CHECKS = {"SYS": sys_check}
