"""C06 (format then parse gives the same range), C12 (split into rank pairs and leftovers), C17 (canonical text)."""
import json
from vlib import *
import p_notation


def _row_models(chk, lens):
    tot = TlcResult()
    t = time.time()
    for L in lens:
        r = tlc("RowFmt", cfg="RowFmt%d.cfg" % L, timeout=3000, heap="8g")
        tot.generated += r.generated
        tot.distinct += r.distinct
        tot.cmd = r.cmd
    tot.wall = time.time() - t
    chk.add_tlc(tot, "RowFmt(scanner, every row of length %s)" % ",".join(map(str, lens)))


def _record(chk, args, name="fmt.ndjson"):
    trace = chk.path(name)
    hx(["fmt", "--seed", chk.seed, "--threads", NCPU, "--out", trace] + args, timeout=3000)
    return trace


def _brief(ev):
    return "range of %d combos %s... text %r" % (len(ev["range"]), json.dumps(ev["range"][:3]), ev["text"][:120])


def _sig(ev):
    return {"op": "fmt", "range": ev["range"] if len(ev["range"]) <= 16 else ev["range"][:16] + [["+%d more" % (len(ev["range"]) - 16)]]}


def c06(chk, opts):
    thorough = chk.tier == "thorough"
    build("release")
    _row_models(chk, [1, 2, 3, 5, 8, 10, 11, 12, 13] if thorough else [1, 2, 3, 5, 8, 10])
    # token half: the text of every well-formed token parses back to an equal token
    tokens = p_notation._tokens(chk, "MCNotation(token text reads back)")
    t1 = chk.path("tok.ndjson")
    hx(["c05", "--seed", chk.seed, "--tokens", tokens, "--all-lits", 1 if thorough else 0, "--lists", 0, "--sandwiches", 0, "--ctok", 1, "--ctok-weights", 6 if thorough else 2, "--out", t1], timeout=3000)
    r, ev1, bad1 = validate_independent(chk, "TraceNotation", t1, "TraceNotation(C06 tokens)", cfg="TraceNotationC06.cfg", heap="6g")
    for i in bad1:
        ev = json.loads(ev1[i - 1])
        if ev["op"] == "tok":
            chk.violation("token text does not parse back to an equal token: %s%s (rt=%s)" % ("".join(ev["body"]), "".join(ev["lit"]), ev["rt"]),
                          {"op": "tok", "text": "".join(ev["body"]) + "".join(ev["lit"])}, {"gen": ["c05"], "event": ev})
        elif ev["op"] == "ctok":
            d = {k: ev[k] for k in ("kind", "t", "h", "k", "e", "c", "w")}
            chk.violation("text of a constructed token does not parse back to an equal token: %s printed as %r (fmt=%s, parse=%s, equal=%s, %d combos before, %d after)" %
                          (json.dumps(d), "".join(ev["body"]) + "".join(ev["lit"]), ev["fmt"], ev["res"], ev["eq"], len(ev["orig"]), len(ev["back"])),
                          dict(d, op="ctok"), {"gen": ["c05", "--ctok", "1"], "event": ev})
    nct = sum(1 for e in ev1 if e.startswith('{"op":"ctok"'))
    if nct < 2 * 2314:
        raise ToolError("recorder produced %d constructed-token events, expected at least %d" % (nct, 2 * 2314))
    # range half
    args = ["--family", "rows,partial,random,big,negzero,tiny", "--rows-exhaustive", 8 if thorough else 7, "--rows-samples", 400 if thorough else 120,
            "--partial-pairs", 14 if thorough else 6, "--partial-random", 200 if thorough else 60, "--random", 3000 if thorough else 900, "--orders", 2]
    trace = _record(chk, args)
    r, events, bad = validate_independent(chk, "TraceFmt", trace, "TraceFmt(C06 round trip)", cfg="TraceFmtC06.cfg", heap="10g", timeout=3000)
    for i in bad:
        ev = json.loads(events[i - 1])
        chk.violation("to_string() does not parse back to the same range: %s; reparsed %d combos (fmt=%s, reparse=%s)" %
                      (_brief(ev), len(ev["reparsed"]), ev["fmtres"], ev["reparse"]), _sig(ev), {"gen": ["fmt"] + [str(a) for a in args], "event": ev})
    for i in (0, 3000, len(events) - 9):
        chk.sample(_brief(json.loads(events[min(i, len(events) - 1)])))
    chk.exhaustive = False
    chk.assumptions = ["the decimal text of an f32 is Rust's: each observed weight is checked for bit-identity, the conversion itself is not modelled"]
    return chk.finish(rule="ranges built from: every absent/a/b pattern of every suited and offsuit row of length <= 7 (8 thorough), structured and random patterns of the longer "
                           "rows and of the pocket row, all 729/81 partial patterns and the <=2-deviation family inside one rank pair (neighbours complete or absent), random "
                           "structured ranges; weights from {0, subnormal, 2^-k, 0.1, 0.3, 1-ulp, 1, random bit patterns in [0,1]} and -0.0; TLC compares the re-parsed map "
                           "with the original bit for bit; plus every well-formed token's text parsed back (tokens obtained by parsing the 3,796 bodies, and the 2,314 tokens built with "
                           "HandRangeToken::new x fixed and random weight bits)",
                      extra={"ranges": len(events), "tokens": len(ev1)})


def c12(chk, opts):
    thorough = chk.tier == "thorough"
    build("release")
    t = time.time()
    tot = TlcResult()
    for n in (4, 6, 12):
        r = tlc("RangeSplit", cfg="RangeSplit%d.cfg" % n, timeout=900, heap="6g")
        tot.generated += r.generated; tot.distinct += r.distinct; tot.cmd = r.cmd
    tot.wall = time.time() - t
    chk.add_tlc(tot, "RangeSplit(probe-then-all = definition, 3^4+3^6+3^12)")
    args = ["--family", "rows,partial,random,big", "--reparse", 0, "--rows-exhaustive", 5, "--rows-samples", 100 if thorough else 40,
            "--partial-pairs", 60 if thorough else 18, "--partial-random", 300 if thorough else 120, "--random", 3000 if thorough else 800, "--orders", 1]
    trace = _record(chk, args)
    r, events, bad = validate_independent(chk, "TraceFmt", trace, "TraceFmt(C12 split)", cfg="TraceFmtC12.cfg", heap="10g", timeout=3000)
    for i in bad:
        ev = json.loads(events[i - 1])
        chk.violation("rank_pairs()/orphan_card_pairs() differ from the definition: %s; reported rank pairs %s, %d leftovers" %
                      (_brief(ev), json.dumps(ev["rps"])[:200], len(ev["orph"])), _sig(ev), {"gen": ["fmt"] + [str(a) for a in args], "event": ev})
    for i in (0, 2000, len(events) - 9):
        chk.sample(_brief(json.loads(events[min(i, len(events) - 1)])))
    chk.exhaustive = False
    return chk.finish(rule="for randomly chosen rank pairs (18 quick / 60 draws thorough): all 729 (pocket) / 81 (suited) patterns and, for offsuit, the <=2-deviation family around "
                           "'complete' plus random patterns of the 3^12, with neighbours complete or absent; row patterns; random whole ranges; TLC recomputes Complete/Orphans "
                           "from the logged contents and compares rank_pairs() and orphan_card_pairs() with them",
                      extra={"ranges": len(events)})


def c17(chk, opts):
    thorough = chk.tier == "thorough"
    build("release")
    _row_models(chk, [1, 2, 3, 5, 8, 10, 11, 12, 13] if thorough else [1, 2, 3, 5, 8, 10])
    r = tlc("RangeBuild", timeout=1800, heap="8g")
    chk.add_tlc(r, "RangeBuild(histories <= depth 3)")
    hists = [json.loads(l)[5:] for l in re.findall(r'^("HIST .*")\s*$', r.raw, re.M)]
    if len(set(hists)) != 14424:
        raise ToolError("RangeBuild printed %d histories" % len(set(hists)))
    hf = chk.path("histories.ndjson")
    open(hf, "w").write("\n".join(sorted(set(hists), key=lambda h: (len(h), h))) + "\n")
    args = ["--family", "rows,random,big,hist,tiny", "--histories", hf, "--hist-stride", 2 if thorough else 7, "--rows-exhaustive", 7 if thorough else 6,
            "--rows-samples", 300 if thorough else 80, "--random", 600 if thorough else 500, "--orders", 16 if thorough else 6]
    trace = _record(chk, args)
    r, events, bad = validate_independent(chk, "TraceFmt", trace, "TraceFmt(C17 canonical text)", cfg="TraceFmtC17.cfg", heap="12g", timeout=3000)
    drift = sorted(set(int(x) for x in re.findall(r'<<"DRIFT", (\d+)>>', r.raw)))
    if drift:
        chk.note("MODEL-DRIFT (informational, no verdict): %d ranges are spelled differently from the implementation-shaped model (e.g. %s)" %
                 (len(drift), json.loads(events[drift[0] - 1])["text"][:100]))
    groups = {}
    for n, e in enumerate(events):
        m = re.search(r'"same_as":(\d+)', e)
        groups.setdefault(int(m.group(1)), []).append(n + 1)
    multi = sum(1 for g in groups.values() if len(g) > 1)
    for i in bad:
        ev = json.loads(events[i - 1])
        other = json.loads(events[ev["same_as"] - 1])
        extra = (" ; the same contents printed %r along another history" % other["text"][:120]) if other["text"] != ev["text"] else ""
        chk.violation("text is not the canonical text of its contents: %s (built via %s)%s" % (_brief(ev), ev["via"], extra), _sig(ev),
                      {"gen": ["fmt"] + [str(a) for a in args], "event": ev})
    if not chk.violations and multi < 200:
        raise ToolError("vacuity: only %d contents were reached along more than one history" % multi)
    for i in (0, 2500, len(events) - 9):
        chk.sample(_brief(json.loads(events[min(i, len(events) - 1)])))
    chk.exhaustive = False
    return chk.finish(rule="every TLC-enumerated construction history up to depth 2 and every 7th (all, thorough) of depth 3 over two adjacent suited rank pairs x 2 weights, executed "
                           "by parse of the joined tokens and by collect(); every pattern of the short rows; random ranges rebuilt along 6 (16) shuffled collect / "
                           "insert-and-overwrite histories; TLC recomputes the maximal runs from the logged contents, requires one token per run in the stated order, each "
                           "denoting exactly its run, leftovers = orphans, and identical text for identical contents",
                      extra={"ranges": len(events), "contents_with_several_histories": multi, "model_drift": len(drift)})


CHECKS = {"C06": c06, "C12": c12, "C17": c17}
