//! System level: a random driver of mixed public API calls on many live handles (ranges, evaluators,
//! iterators), recorded as one sequential trace for spec/TraceEspada.tla.
use crate::flop::next_json;
use crate::proj::*;
use crate::{Args, Out};
use espada::evaluator::FlopExhaustiveEvaluator;
use espada::hand_range::{HandRange, RankPair};

const DY: [(&str, f32); 8] = [("", 1.0), (":0.5", 0.5), (":0.25", 0.25), (":0.75", 0.75), (":0.125", 0.125), (":0.375", 0.375), (":0.625", 0.625), (":0", 0.0)];

fn chars1(s: &str) -> String {
    let v: Vec<String> = s.chars().map(|c| jstr(&c.to_string())).collect();
    format!("[{}]", v.join(","))
}
fn toks_of_text(text: &str) -> String {
    if text.is_empty() {
        return "[]".into();
    }
    let v: Vec<String> = text
        .split(',')
        .map(|p| {
            let (body, lit) = match p.find(':') {
                Some(i) => (&p[..i], &p[i + 1..]),
                None => (p, ""),
            };
            let w = if lit.is_empty() { wbits(1.0f32.to_bits()) } else { lit.parse::<f32>().map(|x| wbits(x.to_bits())).unwrap_or(-999_999_999) };
            format!("{{\"body\":{},\"w\":{}}}", chars1(body), w)
        })
        .collect();
    format!("[{}]", v.join(","))
}

pub fn record(args: &Args, mut out: Out) -> usize {
    let mut rng = Rng::new(args.num("seed", 1));
    let steps = args.num("steps", 3000) as usize;
    let text = std::fs::read_to_string(args.get("tokens").expect("--tokens (TLC export)")).unwrap();
    let bodies: Vec<String> = text.lines().map(|l| serde_json::from_str::<Vec<String>>(l).unwrap().concat()).collect();
    // small tokens are preferred so that evaluators stay cheap
    let small: Vec<&String> = bodies.iter().filter(|b| b.len() == 4 && b.chars().nth(1).map(|c| "shdc".contains(c)).unwrap_or(false)).collect();
    let mut next_id = 1usize;
    let mut ranges: Vec<(usize, HandRange)> = vec![];
    let mut evals: Vec<(usize, FlopExhaustiveEvaluator, usize, bool)> = vec![]; // id, evaluator, product of range sizes, scoped
    let mut iters: Vec<(usize, <FlopExhaustiveEvaluator as IntoIterator>::IntoIter, usize)> = vec![]; // id, iterator, Nones seen
    for _ in 0..steps {
        let roll = rng.usize(100);
        if ranges.is_empty() || roll < 8 {
            // parse a list of well-formed tokens
            let k = 1 + rng.usize(4);
            let mut parts = vec![];
            let mut tj = vec![];
            for _ in 0..k {
                let b: &String = if rng.chance(3, 4) { *rng.pick(&small) } else { rng.pick(&bodies) };
                let (lit, w) = *rng.pick(&DY);
                parts.push(format!("{}{}", b, lit));
                tj.push(format!("{{\"body\":{},\"w\":{}}}", chars1(b), wbits(w.to_bits())));
            }
            let text = parts.join(if rng.chance(1, 4) { ", " } else { "," });
            let t2 = text.clone();
            if let Some(Some(r)) = guarded(move || t2.parse::<HandRange>().ok()) {
                let id = next_id;
                next_id += 1;
                out.line(&format!("{{\"op\":\"parse\",\"r\":{},\"text\":{},\"toks\":[{}],\"contents\":{}}}", id, jstr(&text), tj.join(","), range_json(&r)));
                ranges.push((id, r));
            } else {
                out.line(&format!("{{\"op\":\"failed\",\"what\":\"parse\",\"text\":{}}}", jstr(&text)));
            }
        } else if roll < 14 {
            // collect from items (duplicates: the later one wins)
            let k = 1 + rng.usize(6);
            let mut items = vec![];
            for _ in 0..k {
                let c = rng.distinct(2, 52);
                let (_, w) = *rng.pick(&DY);
                items.push((norm(c[0], c[1]), w));
            }
            if rng.chance(1, 3) {
                let d = items[0].0;
                items.push((d, rng.pick(&DY).1));
            }
            let it2 = items.clone();
            if let Some(r) = guarded(move || it2.iter().map(|((a, b), w)| (pair(*a, *b), *w)).collect::<HandRange>()) {
                let id = next_id;
                next_id += 1;
                let ij: Vec<String> = items.iter().map(|((a, b), w)| format!("[{},{},{}]", a, b, wbits(w.to_bits()))).collect();
                out.line(&format!("{{\"op\":\"collect\",\"r\":{},\"items\":[{}],\"contents\":{}}}", id, ij.join(","), range_json(&r)));
                ranges.push((id, r));
            }
        } else if roll < 20 {
            let (id, r) = rng.pick(&ranges).clone();
            match guarded(move || r.to_string()) {
                Some(text) => out.line(&format!("{{\"op\":\"fmt\",\"r\":{},\"text\":{},\"toks\":{}}}", id, jstr(&text), toks_of_text(&text))),
                None => out.line(&format!("{{\"op\":\"failed\",\"what\":\"fmt\",\"r\":{}}}", id)),
            }
        } else if roll < 24 {
            let (id, r) = rng.pick(&ranges).clone();
            let res = guarded(move || {
                let mut rps: Vec<String> = r
                    .rank_pairs()
                    .iter()
                    .map(|(rp, w)| {
                        let (t, h, k) = match rp {
                            RankPair::Pocket(x) => ("P", rank_id(x), rank_id(x)),
                            RankPair::Suited(h, k) => ("S", rank_id(h), rank_id(k)),
                            RankPair::Ofsuit(h, k) => ("O", rank_id(h), rank_id(k)),
                        };
                        format!("[\"{}\",{},{},{}]", t, h, k, wbits(w.to_bits()))
                    })
                    .collect();
                rps.sort();
                (rps, map_json(r.orphan_card_pairs().iter()))
            });
            match res {
                Some((rps, orph)) => out.line(&format!("{{\"op\":\"split\",\"r\":{},\"rps\":[{}],\"orph\":{}}}", id, rps.join(","), orph)),
                None => out.line(&format!("{{\"op\":\"failed\",\"what\":\"split\",\"r\":{}}}", id)),
            }
        } else if roll < 32 && evals.len() < 6 {
            // a new evaluator over 1..3 existing ranges, kept cheap
            let np = 1 + rng.usize(3);
            let mut rs = vec![];
            let mut prod = 1usize;
            for _ in 0..np {
                let cand: Vec<&(usize, HandRange)> = ranges.iter().filter(|(_, r)| r.card_pairs().len() <= 30 && prod * r.card_pairs().len().max(1) <= 400).collect();
                if cand.is_empty() {
                    break;
                }
                let (id, r) = (*rng.pick(&cand)).clone();
                prod *= r.card_pairs().len().max(1);
                rs.push((id, r));
            }
            if rs.is_empty() {
                continue;
            }
            let f = rng.distinct(3, 52);
            let board = [Some(card(f[0])), Some(card(f[1])), Some(card(f[2])), None, None];
            let players: Vec<HandRange> = rs.iter().map(|(_, r)| r.clone()).collect();
            if let Some(ev) = guarded(move || FlopExhaustiveEvaluator::new(&board, &players)) {
                let id = next_id;
                next_id += 1;
                out.line(&format!("{{\"op\":\"new\",\"e\":{},\"flop\":{},\"rs\":{}}}", id, list(&f), list(&rs.iter().map(|x| x.0).collect::<Vec<_>>())));
                evals.push((id, ev, prod, false));
            }
        } else if roll < 40 && !evals.is_empty() {
            let j = rng.usize(evals.len());
            let (from, to) = crate::flop::random_window(&mut rng, 6);
            evals[j].1.scope(from.0, from.1, to.0, to.1);
            evals[j].3 = true;
            out.line(&format!("{{\"op\":\"scope\",\"e\":{},\"from\":[{},{}],\"to\":[{},{}]}}", evals[j].0, from.0, from.1, to.0, to.1));
        } else if roll < 46 && !evals.is_empty() && iters.len() < 5 {
            // into_iter consumes the evaluator; unscoped ones only when they are tiny
            let cand: Vec<usize> = (0..evals.len()).filter(|&j| evals[j].3 || evals[j].2 <= 3).collect();
            if cand.is_empty() {
                continue;
            }
            let j = *rng.pick(&cand);
            let (eid, ev, _, _) = evals.remove(j);
            let id = next_id;
            next_id += 1;
            out.line(&format!("{{\"op\":\"iter\",\"e\":{},\"i\":{}}}", eid, id));
            iters.push((id, ev.into_iter(), 0));
        } else if !iters.is_empty() {
            let j = rng.usize(iters.len());
            let id = iters[j].0;
            match iters[j].1.next() {
                Some(sd) => {
                    let idx: Vec<u16> = sd.players().iter().map(|p| p.hand().power_index()).collect();
                    let win: Vec<u8> = sd.players().iter().map(|p| p.is_winner() as u8).collect();
                    let base = next_json(&sd);
                    out.line(&format!("{},\"i\":{},\"idx\":{},\"win\":{},\"wl\":{}}}", &base[..base.len() - 1], id, list(&idx), list(&win), sd.winner_len()));
                }
                None => {
                    out.line(&format!("{{\"op\":\"none\",\"i\":{}}}", id));
                    iters[j].2 += 1;
                    if iters[j].2 >= 2 {
                        iters.remove(j);
                    }
                }
            }
        }
        if ranges.len() > 40 {
            let j = rng.usize(ranges.len());
            ranges.remove(j);
        }
    }
    out.finish()
}
