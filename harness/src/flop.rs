//! Flop enumeration family (C02, C04, C08, C11, C15): configurations, recorders, child-process drain.
use crate::proj::*;
use crate::showdown::showdown_json;
use crate::{Args, Out};
use espada::card::Card;
use espada::evaluator::{FlopExhaustiveEvaluator, Showdown};
use espada::hand_range::HandRange;

#[derive(Clone, Debug)]
pub struct Entry {
    pub a: usize,
    pub b: usize,
    pub m: u32,
    pub e: u32,
}
impl Entry {
    pub fn weight(&self) -> f32 {
        self.m as f32 / (1u64 << self.e) as f32
    }
}
#[derive(Clone, Debug)]
pub struct Cfg {
    pub flop: [usize; 3],
    pub ranges: Vec<Vec<Entry>>,
    pub from: (u8, u8),
    pub to: (u8, u8),
    pub scoped: bool,
}

impl Cfg {
    pub fn json_fields(&self) -> String {
        let rs: Vec<String> = self
            .ranges
            .iter()
            .map(|r| {
                let es: Vec<String> = r.iter().map(|e| format!("{{\"c\":[{},{}],\"m\":{},\"e\":{}}}", e.a, e.b, e.m, e.e)).collect();
                format!("[{}]", es.join(","))
            })
            .collect();
        format!(
            "\"flop\":{},\"ranges\":[{}],\"from\":[{},{}],\"to\":[{},{}]",
            list(&self.flop), rs.join(","), self.from.0, self.from.1, self.to.0, self.to.1
        )
    }
    pub fn from_json(v: &serde_json::Value) -> Cfg {
        let n = |x: &serde_json::Value| x.as_u64().unwrap() as usize;
        let flop = [n(&v["flop"][0]), n(&v["flop"][1]), n(&v["flop"][2])];
        let ranges = v["ranges"]
            .as_array()
            .unwrap()
            .iter()
            .map(|r| {
                r.as_array()
                    .unwrap()
                    .iter()
                    .map(|e| {
                        let (a, b) = norm(n(&e["c"][0]), n(&e["c"][1]));
                        Entry { a, b, m: n(&e["m"]) as u32, e: n(&e["e"]) as u32 }
                    })
                    .collect()
            })
            .collect();
        let scoped = !v["from"].is_null();
        let (from, to) = if scoped {
            ((n(&v["from"][0]) as u8, n(&v["from"][1]) as u8), (n(&v["to"][0]) as u8, n(&v["to"][1]) as u8))
        } else {
            ((0, 1), (48, 49))
        };
        Cfg { flop, ranges, from, to, scoped }
    }
    pub fn hand_ranges(&self) -> Vec<HandRange> {
        self.ranges
            .iter()
            .map(|r| r.iter().map(|e| (pair(e.a, e.b), e.weight())).collect::<HandRange>())
            .collect()
    }
    pub fn board(&self) -> [Option<Card>; 5] {
        [Some(card(self.flop[0])), Some(card(self.flop[1])), Some(card(self.flop[2])), None, None]
    }
    pub fn evaluator(&self) -> FlopExhaustiveEvaluator {
        let mut ev = FlopExhaustiveEvaluator::new(&self.board(), &self.hand_ranges());
        if self.scoped {
            ev.scope(self.from.0, self.from.1, self.to.0, self.to.1);
        }
        ev
    }
}

impl Cfg {
    /// upper bound on the number of showdowns any correct iterator can yield for this configuration:
    /// positions in scope x product of the range sizes.  Recorders stop one past it, so that an iterator
    /// that never ends shows up as an event the specification rejects instead of exhausting memory.
    pub fn max_deals(&self) -> usize {
        let (from, to) = if self.scoped { (self.from, self.to) } else { ((0, 1), (48, 49)) };
        let lin = |p: (u8, u8)| -> i64 {
            let (t, r) = (p.0.min(48) as i64, p.1.min(49) as i64);
            // number of positions before (t, r) in lexicographic order
            t * 48 - t * (t - 1) / 2 + (r - t - 1)
        };
        let npos = (lin(to) - lin(from)).max(0) as usize + 2;
        let prod = self.ranges.iter().fold(1usize, |a, r| a.saturating_mul(r.len().max(1)));
        npos.saturating_mul(prod)
    }
}

/// one yielded showdown as a C02 `next` event
pub fn next_json(sd: &Showdown) -> String {
    let b: Vec<usize> = sd.board().iter().map(card_id).collect();
    let holes: Vec<String> = sd.players().iter().map(|p| { let (x, y) = pair_ids(&p.hole_cards()); format!("[{},{}]", x, y) }).collect();
    let (pm, pe) = match dyadic(sd.probability()) {
        Some((m, e)) if m < (1 << 30) && e >= 0 && e < 1000 => (m as i64, e as i64),
        _ if sd.probability() == 0.0 => (0, 0),
        _ => (-1, -1),
    };
    format!("{{\"op\":\"next\",\"board\":{},\"holes\":[{}],\"pm\":{},\"pe\":{}}}", list(&b), holes.join(","), pm, pe)
}

/// compact digest of a showdown for run comparison: [turn id, river id, hole ids ...]
pub fn item(sd: &Showdown) -> Vec<usize> {
    let mut v = vec![card_id(&sd.board()[3]), card_id(&sd.board()[4])];
    for p in sd.players() {
        let (x, y) = pair_ids(&p.hole_cards());
        v.push(x);
        v.push(y);
    }
    v
}

const DY: [(u32, u32); 8] = [(1, 0), (1, 1), (1, 2), (3, 2), (3, 3), (5, 3), (7, 3), (1, 0)];

pub fn random_range(rng: &mut Rng, k: usize, flop: &[usize; 3], hot: &[usize]) -> Vec<Entry> {
    let mut r: Vec<Entry> = vec![];
    let mut guard = 0;
    while r.len() < k && guard < 10000 {
        guard += 1;
        // bias towards a few "hot" cards so that ranges overlap each other, the flop and the window
        let a = if !hot.is_empty() && rng.chance(1, 3) { *rng.pick(hot) } else { rng.usize(52) };
        let b = if !hot.is_empty() && rng.chance(1, 4) { *rng.pick(hot) } else if rng.chance(1, 12) { flop[rng.usize(3)] } else { rng.usize(52) };
        if a == b {
            continue;
        }
        let (a, b) = norm(a, b);
        if r.iter().any(|e| e.a == a && e.b == b) {
            continue;
        }
        let (m, e) = if rng.chance(1, 40) { (0, 0) } else { *rng.pick(&DY) };
        r.push(Entry { a, b, m, e });
    }
    r
}

fn deck_of(flop: &[usize; 3]) -> Vec<usize> {
    (0..52).filter(|c| !flop.contains(c)).collect()
}

fn valid_pos(t: u8, r: u8) -> bool {
    t < r && r <= 48
}
pub fn succ(p: (u8, u8)) -> (u8, u8) {
    if p.1 < 48 { (p.0, p.1 + 1) } else { (p.0 + 1, p.0 + 2) }
}
pub fn random_pos(rng: &mut Rng) -> (u8, u8) {
    loop {
        let t = rng.usize(48) as u8;
        let r = rng.usize(49) as u8;
        if valid_pos(t, r) {
            return (t, r);
        }
    }
}
/// a window [from, to) of roughly `len` positions, placed so that starts, turn rollovers and the end are hit often
pub fn random_window(rng: &mut Rng, len: usize) -> ((u8, u8), (u8, u8)) {
    let from = match rng.usize(6) {
        0 => (0, 1),
        1 => { let t = rng.usize(47) as u8; (t, 48 - rng.usize(2).min((47 - t) as usize) as u8) }   // just before a turn rollover
        2 => { let t = 44 + rng.usize(4) as u8; (t, t + 1 + rng.usize((48 - t - 1) as usize + 1).min((47 - t) as usize) as u8) }
        _ => random_pos(rng),
    };
    let from = if valid_pos(from.0, from.1) { from } else { (0, 1) };
    let mut to = from;
    let n = rng.usize(len + 1);
    for _ in 0..n {
        if to == (48, 49) {
            break;
        }
        to = succ(to);
    }
    if rng.chance(1, 6) {
        to = (48, 49);
        // keep the run short: start close to the end
        let t = 43 + rng.usize(5) as u8;
        let from2 = (t, (t + 1 + rng.usize(2) as u8).min(48));
        return (from2, to);
    }
    (from, to)
}

pub fn random_cfg(rng: &mut Rng, max_players: usize, max_combos: usize, window: usize) -> Cfg {
    let f = rng.distinct(3, 52);
    let flop = [f[0], f[1], f[2]];
    let deck = deck_of(&flop);
    let (from, to) = random_window(rng, window);
    // hot cards: the turn/river cards of the window start, a flop card, two random ones
    let hot = vec![deck[from.0 as usize], deck[from.1 as usize], deck[(from.1 as usize + 1).min(48)], flop[0], rng.usize(52), rng.usize(52)];
    let np = 1 + rng.usize(max_players);
    let ranges = (0..np).map(|_| { let k = 1 + rng.usize(max_combos); random_range(rng, k, &flop, &hot) }).collect();
    Cfg { flop, ranges, from, to, scoped: true }
}

/// run one configuration to exhaustion, logging new / next / none (+ extra next() calls after None)
pub fn run_block(cfg: &Cfg, out: &mut Out, extra_after: usize) -> usize {
    out.line(&format!("{{\"op\":\"new\",{}}}", cfg.json_fields()));
    let c = cfg.clone();
    let res = guarded(move || {
        let mut lines = vec![];
        let cap = c.max_deals();
        let mut it = c.evaluator().into_iter();
        let mut n = 0usize;
        while let Some(sd) = it.next() {
            lines.push(next_json(&sd));
            n += 1;
            if n > cap {
                // more showdowns than deals exist: the iterator does not terminate properly
                lines.push("{\"op\":\"runaway\"}".to_string());
                return (lines, n);
            }
        }
        lines.push("{\"op\":\"none\"}".to_string());
        for _ in 0..extra_after {
            match it.next() {
                None => lines.push("{\"op\":\"none\"}".to_string()),
                Some(sd) => lines.push(next_json(&sd)),
            }
        }
        (lines, n)
    });
    match res {
        Some((lines, n)) => {
            let clean = lines.iter().all(|l| !l.contains("runaway"));
            let first = out.n + 1; // line number of the first `next` event of this block (the first `none` is at first + n)
            for l in lines {
                out.line(&l);
            }
            // the other consumption routes: for every fifth block (the small-scope family alone has thousands of blocks)
            if clean && n <= 2500 && first % 5 == 0 {
                routes(cfg, out, first, n);
            }
            n
        }
        None => {
            out.line("{\"op\":\"panic\"}");
            0
        }
    }
}

/// the same enumeration consumed through other Iterator routes (nth, skip, step_by, last, count, collect after size_hint), each
/// on a fresh iterator of the configuration; every result is logged with the distance back to the `next` / `none` event of the
/// plain run it must repeat
fn routes(cfg: &Cfg, out: &mut Out, first: usize, n: usize) {
    let some = |sd: &Showdown, how: &str, j: usize, out: &mut Out| {
        let back = out.n + 1 - (first + j);
        let body = next_json(sd).replacen("\"op\":\"next\"", &format!("\"op\":\"route\",\"how\":{},\"res\":\"some\",\"back\":{}", jstr(how), back), 1);
        out.line(&body);
    };
    let none = |how: &str, out: &mut Out| {
        let back = out.n + 1 - (first + n);
        out.line(&format!("{{\"op\":\"route\",\"how\":{},\"res\":\"none\",\"back\":{}}}", jstr(how), back));
    };
    let other = |how: &str, res: &str, out: &mut Out| {
        out.line(&format!("{{\"op\":\"route\",\"how\":{},\"res\":\"{}\",\"back\":1}}", jstr(how), res));
    };
    let mut ks: Vec<usize> = vec![0, 1, n / 2, n.saturating_sub(1), n, n + 3];
    ks.dedup();
    for k in ks {
        let c = cfg.clone();
        // nth(k), then the call after it
        let r = guarded(move || {
            let mut it = c.evaluator().into_iter();
            let _ = it.size_hint();
            let a = it.nth(k);
            let b = it.next();
            (a, b)
        });
        match r {
            Some((a, b)) => {
                match a {
                    Some(sd) if k < n => some(&sd, &format!("nth({})", k), k, out),
                    None if k >= n => none(&format!("nth({})", k), out),
                    _ => other(&format!("nth({})", k), "wrong-end", out),
                }
                match b {
                    Some(sd) if k + 1 < n => some(&sd, &format!("nth({}) then next", k), k + 1, out),
                    None if k + 1 >= n => none(&format!("nth({}) then next", k), out),
                    _ => other(&format!("nth({}) then next", k), "wrong-end", out),
                }
            }
            None => other(&format!("nth({})", k), "panic", out),
        }
    }
    // skip(k).next(), step_by(3), last(), count(), collect()
    let k = n / 3 + 1;
    let c = cfg.clone();
    match guarded(move || c.evaluator().into_iter().skip(k).next()) {
        Some(Some(sd)) if k < n => some(&sd, &format!("skip({})", k), k, out),
        Some(None) if k >= n => none(&format!("skip({})", k), out),
        Some(_) => other(&format!("skip({})", k), "wrong-end", out),
        None => other(&format!("skip({})", k), "panic", out),
    }
    let c = cfg.clone();
    match guarded(move || c.evaluator().into_iter().step_by(3).take(4).collect::<Vec<_>>()) {
        Some(v) => {
            if v.len() != ((n + 2) / 3).min(4) {
                other("step_by(3)", "wrong-end", out);
            }
            for (i, sd) in v.iter().enumerate() {
                if 3 * i < n {
                    some(sd, "step_by(3)", 3 * i, out);
                }
            }
        }
        None => other("step_by(3)", "panic", out),
    }
    let c = cfg.clone();
    match guarded(move || c.evaluator().into_iter().last()) {
        Some(Some(sd)) if n > 0 => some(&sd, "last()", n - 1, out),
        Some(None) if n == 0 => none("last()", out),
        Some(_) => other("last()", "wrong-end", out),
        None => other("last()", "panic", out),
    }
    let c = cfg.clone();
    match guarded(move || c.evaluator().into_iter().count()) {
        Some(m) if m == n => none("count()", out),
        Some(_) => other("count()", "wrong-end", out),
        None => other("count()", "panic", out),
    }
    let c = cfg.clone();
    match guarded(move || c.evaluator().into_iter().collect::<Vec<_>>()) {
        Some(v) => {
            if v.len() != n {
                other("collect()", "wrong-end", out);
            } else if n > 0 {
                some(&v[n - 1], "collect()", n - 1, out);
                some(&v[n / 2], "collect()", n / 2, out);
            }
        }
        None => other("collect()", "panic", out),
    }
}

/// the first `n` showdowns of a configuration that is too large to drain; the block ends with `abandon`
pub fn run_prefix(cfg: &Cfg, out: &mut Out, n: usize) {
    out.line(&format!("{{\"op\":\"new\",{}}}", cfg.json_fields()));
    let c = cfg.clone();
    let res = guarded(move || {
        let mut lines = vec![];
        let mut it = c.evaluator().into_iter();
        for _ in 0..n {
            match it.next() {
                Some(sd) => lines.push(next_json(&sd)),
                None => {
                    lines.push("{\"op\":\"none\"}".to_string());
                    return lines;
                }
            }
        }
        lines.push("{\"op\":\"abandon\"}".to_string());
        lines
    });
    match res {
        Some(lines) => {
            for l in lines {
                out.line(&l);
            }
        }
        None => out.line("{\"op\":\"panic\"}"),
    }
}

/// all 1326 combos in a fixed order, weights cycling through the dyadic table
pub fn all_combos() -> Vec<Entry> {
    let mut v = vec![];
    for a in 0..52 {
        for b in (a + 1)..52 {
            let (m, e) = DY[(a * 7 + b) % DY.len()];
            v.push(Entry { a, b, m, e });
        }
    }
    v
}

pub fn record_c02(args: &Args, mut out: Out) -> usize {
    let mut rng = Rng::new(args.num("seed", 1));
    let n = args.num("n", 300) as usize;
    let big = args.num("big", 1) == 1;
    // the small-scope family of MCFlop, replayed on the real evaluator (tail window embedding)
    if args.num("family", 1) == 1 {
        for cfg in mc_family(args.num("family-stride", 7) as usize, &mut rng, false) {
            run_block(&cfg, &mut out, 1);
        }
    }
    for i in 0..n {
        let cfg = match i % 10 {
            0 => random_cfg(&mut rng, 1, 12, 30),
            1..=4 => random_cfg(&mut rng, 2, 6, 25),
            5..=7 => random_cfg(&mut rng, 3, 4, 12),
            8 => random_cfg(&mut rng, 4, 3, 8),
            _ => { let mut c = random_cfg(&mut rng, 2, 3, 10); c.scoped = false; c.from = (0, 1); c.to = (48, 49); c }  // complete run
        };
        run_block(&cfg, &mut out, 2);
    }
    // flop twins, one right after the other on this thread: the same ranges on a flop that differs in one card (first, second or
    // third; the next rank of the same suit, or the card 16 / 32 / 48 ids away - the same low bits of the card id), both orders.
    // The window is the whole first turn row, so every river index is dealt and any difference between the two decks shows.
    for i in 0..(args.num("twins", 6) as usize) {
        let mut c = random_cfg(&mut rng, 1 + i % 2, 3, 6);
        c.from = (0, 1);
        c.to = (1, 2);
        let busy: Vec<usize> = c.ranges.iter().flat_map(|r| r.iter().flat_map(|e| [e.a, e.b])).collect();
        let mut n = 0;
        for which in 0..3usize {
            for step in [4usize, 16, 32, 48] {
                let f0 = c.flop[which];
                let k = if f0 + step < 52 { f0 + step } else if f0 >= step { f0 - step } else { continue };
                if c.flop.contains(&k) || busy.contains(&k) {
                    continue;
                }
                let mut d = c.clone();
                d.flop[which] = k;
                n += 1;
                if n % 2 == 0 {
                    run_block(&c, &mut out, 1);
                    run_block(&d, &mut out, 1);
                } else {
                    run_block(&d, &mut out, 1);
                    run_block(&c, &mut out, 1);
                }
            }
        }
    }
    // a long stretch of blocked deals followed by a few legal ones: the first player's only combo holds the first deck card (As), so
    // the whole first turn is blocked - 48 rivers x 40 x 40 x 40 deals, three million in a row; the window ends after position
    // (1,2) = (Ah, Ad), where all but two combos of every other player are blocked as well (they hold Ah or Ad)
    if big {
        let flop = [21usize, 34, 47];
        let mut ranges: Vec<Vec<Entry>> = vec![vec![Entry { a: 0, b: 30, m: 1, e: 0 }]];
        for p in 0..3usize {
            let mut r: Vec<Entry> = vec![];
            let others: Vec<usize> = (3..52).filter(|c| ![21usize, 30, 34, 47].contains(c)).collect();
            for (n, &y) in others.iter().enumerate() {
                if r.len() < 38 {
                    r.push(Entry { a: 1 + (n + p) % 2, b: y, m: 1, e: 1 });
                }
            }
            r.push(Entry { a: 4 + 2 * p, b: 40 + p, m: 1, e: 0 });
            r.push(Entry { a: 5 + 2 * p, b: 44 + p, m: 3, e: 2 });
            ranges.push(r);
        }
        let cfg = Cfg { flop, ranges, from: (0, 1), to: (1, 3), scoped: true };
        run_block(&cfg, &mut out, 1);
    }
    // many players with one or two combos each (a flop leaves room for 23), and no player at all
    for &np in &[0usize, 5, 10, 17, 22, 23] {
        let f = rng.distinct(3, 52);
        let free: Vec<usize> = { let mut v: Vec<usize> = (0..52).filter(|c| !f.contains(c)).collect(); rng.shuffle(&mut v); v };
        let mut ranges: Vec<Vec<Entry>> = vec![];
        for p in 0..np {
            let (a, b) = norm(free[2 * p], free[2 * p + 1]);
            let mut r = vec![Entry { a, b, m: 1, e: (p % 3) as u32 }];
            if np <= 10 && rng.chance(1, 2) {
                let (a2, b2) = norm(free[(2 * p + 3) % free.len()], free[(2 * p + 8) % free.len()]);
                if (a2, b2) != (a, b) && a2 != b2 {
                    r.push(Entry { a: a2, b: b2, m: 3, e: 2 });
                }
            }
            ranges.push(r);
        }
        let full = Cfg { flop: [f[0], f[1], f[2]], ranges, from: (0, 1), to: (48, 49), scoped: false };
        run_block(&full, &mut out, 1);
        let mut w = full.clone();
        let (from, to) = random_window(&mut rng, 40);
        w.from = from;
        w.to = to;
        w.scoped = true;
        run_block(&w, &mut out, 1);
    }
    if big {
        // ranges around the u8 boundary and the full range, one to three positions
        let all = all_combos();
        for &k in &[255usize, 256, 257, 300, 1326] {
            let f = rng.distinct(3, 52);
            let mut pool = all.clone();
            rng.shuffle(&mut pool);
            let (from, _) = random_window(&mut rng, 2);
            let mut to = succ(from);
            if k < 1000 && to != (48, 49) {
                to = succ(to);
            }
            let cfg = Cfg { flop: [f[0], f[1], f[2]], ranges: vec![pool[..k].to_vec()], from, to, scoped: true };
            run_block(&cfg, &mut out, 1);
        }
        // a wide range beside a narrow one
        let f = rng.distinct(3, 52);
        let mut pool = all.clone();
        rng.shuffle(&mut pool);
        let cfg = Cfg { flop: [f[0], f[1], f[2]], ranges: vec![pool[..260].to_vec(), pool[300..303].to_vec()], from: (10, 48), to: (11, 13), scoped: true };
        run_block(&cfg, &mut out, 1);
    }
    out.finish()
}

/// the configuration family of spec/MCFlop.tla (pool, flops, window), every `stride`-th member
pub fn mc_family(stride: usize, rng: &mut Rng, with_empty: bool) -> Vec<Cfg> {
    let pool = [
        Entry { a: 48, b: 49, m: 1, e: 0 }, Entry { a: 49, b: 51, m: 3, e: 1 }, Entry { a: 10, b: 47, m: 1, e: 1 },
        Entry { a: 1, b: 2, m: 1, e: 2 }, Entry { a: 0, b: 48, m: 3, e: 2 }, Entry { a: 2, b: 50, m: 5, e: 3 },
    ];
    let flops = [[0usize, 5, 6], [51, 20, 3], [49, 50, 10]];
    let mut ranges: Vec<Vec<Entry>> = if with_empty { vec![vec![]] } else { vec![] };
    for i in 0..pool.len() {
        ranges.push(vec![pool[i].clone()]);
        for j in 0..pool.len() {
            if i != j {
                ranges.push(vec![pool[i].clone(), pool[j].clone()]);
            }
        }
    }
    let mut window: Vec<(u8, u8)> = vec![];
    for t in 44..48u8 {
        for r in (t + 1)..49u8 {
            window.push((t, r));
        }
    }
    window.push((48, 49));
    let mut out = vec![];
    let mut k = rng.usize(stride.max(1));
    for flop in flops {
        for r1 in &ranges {
            for r2 in &ranges {
                for (i, &from) in window.iter().enumerate() {
                    for &to in &window[i..] {
                        k += 1;
                        if k % stride.max(1) == 0 {
                            out.push(Cfg { flop, ranges: vec![r1.clone(), r2.clone()], from, to, scoped: true });
                        }
                    }
                }
            }
        }
    }
    out
}

#[allow(dead_code)]
pub fn showdown_event_from_enum(sd: &Showdown) -> String {
    showdown_json(sd)
}

// ------------------------------------------------------------------------------------------------
// C08: drain configurations in a child process, on a thread with a fixed small stack

pub fn drain_cases(args: &Args, mut out: Out) -> usize {
    let mut rng = Rng::new(args.num("seed", 1));
    let thorough = args.num("thorough", 0) == 1;
    let all = all_combos();
    let mut shuffled = all.clone();
    rng.shuffle(&mut shuffled);
    let mut cases: Vec<(String, Cfg)> = vec![];
    let flop = [14usize, 27, 40];
    let one = |a: usize, b: usize| vec![Entry { a, b, m: 1, e: 0 }];
    // empty ranges
    cases.push(("empty range alone".into(), Cfg { flop, ranges: vec![vec![]], from: (0, 1), to: (48, 49), scoped: false }));
    cases.push(("empty range beside a pair".into(), Cfg { flop, ranges: vec![one(0, 1), vec![]], from: (0, 1), to: (48, 49), scoped: false }));
    cases.push(("empty range first".into(), Cfg { flop, ranges: vec![vec![], shuffled[..40].to_vec()], from: (3, 9), to: (4, 20), scoped: true }));
    // sizes around the u8 boundary, and everything
    for &k in &[1usize, 2, 255, 256, 257, 511, 512, 513, 1326] {
        cases.push((format!("{} combos, two positions", k), Cfg { flop, ranges: vec![shuffled[..k].to_vec()], from: (0, 1), to: (0, 3), scoped: true }));
    }
    cases.push(("256 combos twice".into(), Cfg { flop, ranges: vec![shuffled[..256].to_vec(), shuffled[256..512].to_vec()], from: (20, 30), to: (20, 31), scoped: true }));
    // a narrow range whose card is the first deck card beside wide ranges: a whole turn of consecutive blocked deals
    for &k in &[250usize, 1326] {
        cases.push((format!("AsAh beside {} combos, first turn", k), Cfg { flop, ranges: vec![one(0, 1), shuffled[..k].to_vec()], from: (0, 1), to: (1, 2), scoped: true }));
        cases.push((format!("{} combos beside AsAh, first turn", k), Cfg { flop, ranges: vec![shuffled[..k].to_vec(), one(0, 1)], from: (0, 1), to: (1, 2), scoped: true }));
    }
    // everything blocked: both players can only hold the same combo; a combo on the flop
    cases.push(("same single combo twice, full run".into(), Cfg { flop, ranges: vec![one(8, 9), one(8, 9)], from: (0, 1), to: (48, 49), scoped: false }));
    cases.push(("only combo touches the flop, full run".into(), Cfg { flop, ranges: vec![one(14, 9)], from: (0, 1), to: (48, 49), scoped: false }));
    cases.push(("flop-blocked combo beside 300 combos, two turns".into(), Cfg { flop, ranges: vec![shuffled[..300].to_vec(), one(27, 3)], from: (0, 1), to: (2, 3), scoped: true }));
    // every combo of a player holds the last card of the deck (2c, or 2d when 2c is on the flop), or the first one
    let with_card = |c: usize, others: &[usize]| -> Vec<Entry> { others.iter().map(|&o| { let (a, b) = norm(c, o); Entry { a, b, m: 1, e: 1 } }).collect() };
    cases.push(("every combo holds 2c (last deck card), full run".into(), Cfg { flop, ranges: vec![with_card(51, &[50]), one(0, 4)], from: (0, 1), to: (48, 49), scoped: false }));
    cases.push(("three combos all holding 2c, last turns".into(), Cfg { flop, ranges: vec![with_card(51, &[3, 7, 11])], from: (40, 41), to: (48, 49), scoped: true }));
    cases.push(("2c on the flop, every combo holds 2d".into(), Cfg { flop: [51, 27, 40], ranges: vec![with_card(50, &[49, 2]), shuffled[..30].to_vec()], from: (30, 31), to: (48, 49), scoped: true }));
    cases.push(("every combo holds As (first deck card), first turns".into(), Cfg { flop, ranges: vec![with_card(0, &[1, 5, 9]), shuffled[..20].to_vec()], from: (0, 1), to: (3, 4), scoped: true }));
    // many players with one combo each (a flop leaves room for 23)
    for &np in &[10usize, 16, 17, 20, 23] {
        let ranges: Vec<Vec<Entry>> = (0..np).map(|p| one(2 * p + if 2 * p >= 14 { 2 } else { 0 }, 2 * p + 1 + if 2 * p + 1 >= 14 { 2 } else { 0 })).collect();
        // skip cards of the flop [14, 27, 40]: shift pairs that would touch them
        let ok = ranges.iter().all(|r| ![14usize, 27, 40].contains(&r[0].a) && ![14usize, 27, 40].contains(&r[0].b));
        let ranges = if ok { ranges } else {
            let free: Vec<usize> = (0..52).filter(|c| ![14usize, 27, 40].contains(c)).collect();
            (0..np).map(|p| one(free[2 * p], free[2 * p + 1])).collect()
        };
        cases.push((format!("{} players with one combo each, full run", np), Cfg { flop, ranges, from: (0, 1), to: (48, 49), scoped: false }));
    }
    // weights at the ends of [0,1]: every combo with weight exactly 0 (the grammar accepts 'QQ:0'), a zero among ordinary weights,
    // weights whose product underflows to 0, and weight 1 throughout
    let zero = |a: usize, b: usize| vec![Entry { a, b, m: 0, e: 0 }];
    cases.push(("one combo of weight 0, full run".into(), Cfg { flop, ranges: vec![zero(0, 1)], from: (0, 1), to: (48, 49), scoped: false }));
    cases.push(("weight 0 beside weight 1, full run".into(), Cfg { flop, ranges: vec![one(2, 3), zero(0, 1)], from: (0, 1), to: (48, 49), scoped: false }));
    {
        let mut mixed: Vec<Entry> = shuffled[..30].to_vec();
        for (i, e) in mixed.iter_mut().enumerate() {
            if i % 3 == 0 {
                e.m = 0;
                e.e = 0;
            }
        }
        cases.push(("30 combos, every third of weight 0, a few positions".into(), Cfg { flop, ranges: vec![mixed.clone(), shuffled[40..60].to_vec()], from: (7, 8), to: (7, 12), scoped: true }));
        let tiny: Vec<Entry> = shuffled[100..110].iter().map(|e| Entry { a: e.a, b: e.b, m: 1, e: 63 }).collect();
        let tiny2: Vec<Entry> = shuffled[200..210].iter().map(|e| Entry { a: e.a, b: e.b, m: 1, e: 63 }).collect();
        let tiny3: Vec<Entry> = shuffled[300..310].iter().map(|e| Entry { a: e.a, b: e.b, m: 1, e: 63 }).collect();
        cases.push(("three players with weights 2^-63 (the product underflows), a few positions".into(), Cfg { flop, ranges: vec![tiny, tiny2, tiny3], from: (9, 10), to: (9, 14), scoped: true }));
    }
    // no player at all; huge tables whose last player has no hands (nothing to enumerate, whatever the product of the sizes)
    cases.push(("no players, full run".into(), Cfg { flop, ranges: vec![], from: (0, 1), to: (48, 49), scoped: false }));
    cases.push(("no players, scoped".into(), Cfg { flop, ranges: vec![], from: (0, 1), to: (6, 26), scoped: true }));
    {
        let mut r7: Vec<Vec<Entry>> = (0..7).map(|_| shuffled.clone()).collect();
        r7.push(vec![]);
        cases.push(("seven full ranges, then an empty one".into(), Cfg { flop, ranges: r7, from: (0, 1), to: (48, 49), scoped: false }));
        let mut r64: Vec<Vec<Entry>> = (0..64).map(|p| shuffled[2 * p..2 * p + 2].to_vec()).collect();
        r64.push(vec![]);
        cases.push(("64 two-combo ranges, then an empty one".into(), Cfg { flop, ranges: r64, from: (0, 1), to: (48, 49), scoped: false }));
    }
    // three and four players, mid-size ranges, a few positions
    cases.push(("three players 20x20x20".into(), Cfg { flop, ranges: vec![shuffled[..20].to_vec(), shuffled[10..30].to_vec(), shuffled[25..45].to_vec()], from: (5, 6), to: (5, 9), scoped: true }));
    let n_extra = if thorough { 40 } else { 4 };
    for i in 0..n_extra {
        let f = rng.distinct(3, 52);
        let np = 1 + rng.usize(4);
        let mut ranges = vec![];
        let mut prod = 1usize;
        for _ in 0..np {
            let cap = [1326usize, 400, 60, 14][np - 1];
            let k = rng.usize(cap + 1);
            let off = rng.usize(1326 - k + 1);
            prod = prod.saturating_mul(k.max(1));
            ranges.push(shuffled[off..off + k].to_vec());
        }
        let (from, to) = if prod < 600 && rng.chance(1, 2) { ((0, 1), (48, 49)) } else { random_window(&mut rng, 30) };
        cases.push((format!("random {}", i), Cfg { flop: [f[0], f[1], f[2]], ranges, from, to, scoped: (from, to) != ((0, 1), (48, 49)) }));
    }
    for (name, c) in cases {
        out.line(&format!("{{\"name\":{},{}{}}}", jstr(&name), c.json_fields(), if c.scoped { "" } else { ",\"unscoped\":1" }));
    }
    out.finish()
}

/// child: drain one configuration (line `--line` of `--cases`) on a thread with `--stack` bytes
pub fn drain(args: &Args, mut out: Out) -> usize {
    let text = std::fs::read_to_string(args.get("cases").expect("--cases")).unwrap();
    let line = text.lines().nth(args.num("line", 0) as usize).expect("no such case");
    let v: serde_json::Value = serde_json::from_str(line).unwrap();
    let mut cfg = Cfg::from_json(&v);
    if !v["unscoped"].is_null() {
        cfg.scoped = false;
    }
    let stack = args.num("stack", 2 << 20) as usize;
    // restore the default hook: a panic message on stderr helps the report; the outcome is the exit path
    let t = std::thread::Builder::new()
        .stack_size(stack)
        .spawn(move || {
            let mut n = 0u64;
            let cap = cfg.max_deals() as u64;
            let mut it = cfg.evaluator().into_iter();
            let _ = it.size_hint();
            while let Some(_sd) = it.next() {
                n += 1;
                if n > cap {
                    return (n, false); // runaway: more showdowns than deals exist
                }
            }
            // exhausted must be sticky
            let again = it.next().is_none() && it.next().is_none();
            let _ = it.size_hint();
            // the same enumeration through the adaptors a user would reach for: collect() (which asks size_hint() first),
            // count(), last() - on fresh iterators, when the run is short enough to hold in memory
            if n <= 100_000 {
                // (what they return is C02's business - see the route events there; here they only have to come back)
                let v: Vec<_> = cfg.evaluator().into_iter().collect();
                let c = cfg.evaluator().into_iter().count();
                let l = cfg.evaluator().into_iter().last().is_some();
                std::hint::black_box((v.len(), c, l));
            }
            (n, again)
        })
        .unwrap();
    match t.join() {
        Ok((n, again)) => out.line(&format!("{{\"outcome\":\"ok\",\"count\":{},\"sticky\":{}}}", n, again as u8)),
        Err(_) => out.line("{\"outcome\":\"panic\",\"count\":-1,\"sticky\":0}"),
    }
    out.finish()
}
