//! Compile-time part of C15: the public types can be moved to and shared between threads.
//! Built as its own binary so that a compile failure is attributable to this property.
use espada::card::{Card, Rank, Suit};
use espada::evaluator::{FlopExhaustiveEvaluator, MadeHand, Showdown};
use espada::hand_range::{CardPair, HandRange, HandRangeToken, RankPair};

fn send_sync<T: Send + Sync>() -> &'static str {
    std::any::type_name::<T>()
}
fn send<T: Send>() -> &'static str {
    std::any::type_name::<T>()
}

fn main() {
    let names = [
        send_sync::<FlopExhaustiveEvaluator>(),
        send_sync::<<FlopExhaustiveEvaluator as IntoIterator>::IntoIter>(),
        send_sync::<HandRange>(),
        send_sync::<HandRangeToken>(),
        send_sync::<Showdown>(),
        send_sync::<MadeHand>(),
        send_sync::<CardPair>(),
        send_sync::<RankPair>(),
        send_sync::<Card>(),
        send_sync::<Rank>(),
        send_sync::<Suit>(),
        send::<Vec<Showdown>>(),
    ];
    for n in names {
        println!("{{\"op\":\"sendsync\",\"ty\":\"{}\"}}", n);
    }
}
