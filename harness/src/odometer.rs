//! Implementation-level binding of spec/FlopOdometer.tla through the guarded accessors verif_state() /
//! verif_entries() (cfg espada_verif in /repo).  Informational: a mismatch is MODEL-DRIFT, never a verdict.
use crate::flop::*;
use crate::proj::*;
use crate::{Args, Out};

pub fn record(args: &Args, mut out: Out) -> usize {
    let mut rng = Rng::new(args.num("seed", 1));
    let mut cfgs = mc_family(args.num("family-stride", 40) as usize, &mut rng, true);
    for i in 0..args.num("n", 60) {
        cfgs.push(match i % 3 {
            0 => random_cfg(&mut rng, 2, 5, 12),
            1 => random_cfg(&mut rng, 3, 3, 8),
            _ => random_cfg(&mut rng, 1, 9, 20),
        });
    }
    for cfg in cfgs {
        let c = cfg.clone();
        let r = guarded(move || {
            let mut lines = vec![];
            let mut it = c.evaluator().into_iter();
            // the entry order the iterator really uses (HashMap iteration order), with exact dyadic weights
            let es: Vec<String> = it
                .verif_entries()
                .iter()
                .map(|r| {
                    let v: Vec<String> = r
                        .iter()
                        .map(|(cp, w)| {
                            let (a, b) = pair_ids(cp);
                            let (m, e) = dyadic(*w).map(|(m, e)| (m as i64, e as i64)).unwrap_or((0, 0));
                            format!("{{\"c\":[{},{}],\"m\":{},\"e\":{}}}", a, b, m, e)
                        })
                        .collect();
                    format!("[{}]", v.join(","))
                })
                .collect();
            lines.push(format!(
                "{{\"op\":\"new\",\"flop\":{},\"ranges\":[{}],\"from\":[{},{}],\"to\":[{},{}]}}",
                list(&c.flop), es.join(","), c.from.0, c.from.1, c.to.0, c.to.1
            ));
            let cap = c.max_deals();
            let mut n = 0;
            loop {
                let x = it.next();
                let (t, rv, idx) = it.verif_state();
                match x {
                    Some(sd) => {
                        let base = next_json(&sd);
                        lines.push(format!("{},\"turn\":{},\"river\":{},\"idx\":{}}}", &base[..base.len() - 1], t, rv, list(&idx)));
                    }
                    None => {
                        lines.push(format!("{{\"op\":\"none\",\"turn\":{},\"river\":{},\"idx\":{}}}", t, rv, list(&idx)));
                        break;
                    }
                }
                n += 1;
                if n > cap {
                    break;
                }
            }
            lines
        });
        if let Some(lines) = r {
            for l in lines {
                out.line(&l);
            }
        }
    }
    out.finish()
}
