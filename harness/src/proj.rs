//! Projection of espada API values onto the integers the TLA+ specification talks about.
//!
//! This is the trusted base on the Rust side.  A card id is the position, in a table this
//! file builds *from enum variants*, of the card that compares `==`; the library's own
//! conversions (u8, char, u64, Display) are never used to describe the library's behaviour.
#![allow(dead_code)]

use espada::card::{Card, Rank, Suit};
use espada::hand_range::{CardPair, HandRange, RankPair};
use std::fmt::Write;

pub const RANKS: [Rank; 13] = [
    Rank::Ace,
    Rank::King,
    Rank::Queen,
    Rank::Jack,
    Rank::Ten,
    Rank::Nine,
    Rank::Eight,
    Rank::Seven,
    Rank::Six,
    Rank::Five,
    Rank::Four,
    Rank::Trey,
    Rank::Deuce,
];
pub const RANK_CH: [char; 13] = ['A', 'K', 'Q', 'J', 'T', '9', '8', '7', '6', '5', '4', '3', '2'];
pub const SUITS: [Suit; 4] = [Suit::Spade, Suit::Heart, Suit::Diamond, Suit::Club];

pub fn card(id: usize) -> Card {
    Card::new(RANKS[id / 4], SUITS[id % 4])
}
pub fn rank_id(r: &Rank) -> usize {
    RANKS.iter().position(|x| x == r).unwrap()
}
pub fn suit_id(s: &Suit) -> usize {
    SUITS.iter().position(|x| x == s).unwrap()
}
pub fn card_id(c: &Card) -> usize {
    (0..52).find(|&i| card(i) == *c).unwrap()
}
pub fn pair(a: usize, b: usize) -> CardPair {
    CardPair::new(card(a), card(b))
}
/// (first, second) ids exactly as stored, no re-ordering
pub fn pair_ids(p: &CardPair) -> (usize, usize) {
    (card_id(&p[0]), card_id(&p[1]))
}

/// the 6 / 4 / 12 combos of a rank pair, written from the rules (not `RankPair::into_iter`)
pub fn pocket(r: usize) -> Vec<(usize, usize)> {
    let mut v = vec![];
    for a in 0..4 {
        for b in (a + 1)..4 {
            v.push((4 * r + a, 4 * r + b));
        }
    }
    v
}
pub fn suited(h: usize, k: usize) -> Vec<(usize, usize)> {
    (0..4).map(|s| norm(4 * h + s, 4 * k + s)).collect()
}
pub fn ofsuit(h: usize, k: usize) -> Vec<(usize, usize)> {
    let mut v = vec![];
    for a in 0..4 {
        for b in 0..4 {
            if a != b {
                v.push(norm(4 * h + a, 4 * k + b));
            }
        }
    }
    v
}
pub fn norm(a: usize, b: usize) -> (usize, usize) {
    if a <= b {
        (a, b)
    } else {
        (b, a)
    }
}

pub fn range_from(items: &[((usize, usize), f32)]) -> HandRange {
    items.iter().map(|((a, b), w)| (pair(*a, *b), *w)).collect()
}

/// a range as a JSON list of [a, b, bits], sorted by ids so that equal ranges log equal text
pub fn range_json(r: &HandRange) -> String {
    let mut v: Vec<(usize, usize, u32)> = r
        .card_pairs()
        .iter()
        .map(|(c, w)| {
            let (a, b) = pair_ids(c);
            (a, b, w.to_bits())
        })
        .collect();
    v.sort();
    triples_json(&v)
}
pub fn map_json<'a, I: Iterator<Item = (&'a CardPair, &'a f32)>>(it: I) -> String {
    let mut v: Vec<(usize, usize, u32)> = it
        .map(|(c, w)| {
            let (a, b) = pair_ids(c);
            (a, b, w.to_bits())
        })
        .collect();
    v.sort();
    triples_json(&v)
}
pub fn triples_json(v: &[(usize, usize, u32)]) -> String {
    let mut s = String::from("[");
    for (i, (a, b, w)) in v.iter().enumerate() {
        if i > 0 {
            s.push(',');
        }
        // weight bits of non-negative floats fit 31 bits; anything else is logged as -1 - (bits >> 1)
        // so that it stays a 32-bit integer for TLC and is by construction outside 0..0x3f800000
        write!(s, "[{},{},{}]", a, b, wbits(*w)).unwrap();
    }
    s.push(']');
    s
}
/// weight bit pattern as a TLC-sized integer: non-negative floats keep their bits
/// (order-isomorphic to the value), everything with the sign bit set maps to a negative number.
pub fn wbits(bits: u32) -> i64 {
    if bits & 0x8000_0000 == 0 {
        bits as i64
    } else {
        -1 - ((bits & 0x7fff_ffff) as i64)
    }
}

pub fn rank_pair_json(rp: &RankPair) -> String {
    match rp {
        RankPair::Pocket(x) => format!("[\"P\",{},{}]", rank_id(x), rank_id(x)),
        RankPair::Suited(h, k) => format!("[\"S\",{},{}]", rank_id(h), rank_id(k)),
        RankPair::Ofsuit(h, k) => format!("[\"O\",{},{}]", rank_id(h), rank_id(k)),
    }
}

/// exact dyadic decomposition m / 2^e of a positive finite f32 (m odd), or None
pub fn dyadic(x: f32) -> Option<(u64, i32)> {
    if !(x.is_finite()) || x <= 0.0 {
        return None;
    }
    let bits = x.to_bits();
    let exp = ((bits >> 23) & 0xff) as i32;
    let frac = bits & 0x7f_ffff;
    let (man, e2) = if exp == 0 { (frac, -126 - 23) } else { (frac | 0x80_0000, exp - 127 - 23) };
    let tz = man.trailing_zeros();
    let m = (man >> tz) as u64;
    let e = -(e2 + tz as i32);
    Some((m, e))
}

/// JSON string literal with everything outside printable ASCII escaped as \uXXXX
pub fn jstr(s: &str) -> String {
    let mut o = String::from("\"");
    for u in s.encode_utf16() {
        match u {
            0x22 => o.push_str("\\\""),
            0x5c => o.push_str("\\\\"),
            0x20..=0x7e => o.push(u as u8 as char),
            _ => write!(o, "\\u{:04x}", u).unwrap(),
        }
    }
    o.push('"');
    o
}

/// a string as the list of its characters: [[codepoint, utf8 width], ...]
pub fn chars_json(s: &str) -> String {
    let v: Vec<String> = s.chars().map(|c| format!("[{},{}]", c as u32, c.len_utf8())).collect();
    format!("[{}]", v.join(","))
}

pub fn list<T: std::fmt::Display>(v: &[T]) -> String {
    let s: Vec<String> = v.iter().map(|x| x.to_string()).collect();
    format!("[{}]", s.join(","))
}

/// run a closure, turning a panic into None (the default panic hook is silenced by main)
pub fn guarded<T, F: FnOnce() -> T + std::panic::UnwindSafe>(f: F) -> Option<T> {
    std::panic::catch_unwind(f).ok()
}

/// xorshift* PRNG seeded from VERIF_SEED; the harness has no other source of randomness
pub struct Rng(pub u64);
impl Rng {
    pub fn new(seed: u64) -> Rng {
        let mut r = Rng(seed.wrapping_mul(0x9E37_79B9_7F4A_7C15) ^ 0xD1B5_4A32_D192_ED03);
        if r.0 == 0 {
            r.0 = 0x1234_5678_9abc_def1;
        }
        for _ in 0..8 {
            r.next();
        }
        r
    }
    pub fn next(&mut self) -> u64 {
        let mut x = self.0;
        x ^= x >> 12;
        x ^= x << 25;
        x ^= x >> 27;
        self.0 = x;
        x.wrapping_mul(0x2545_F491_4F6C_DD1D)
    }
    pub fn below(&mut self, n: u64) -> u64 {
        if n == 0 {
            0
        } else {
            (self.next() >> 11) % n
        }
    }
    pub fn usize(&mut self, n: usize) -> usize {
        self.below(n as u64) as usize
    }
    pub fn chance(&mut self, num: u64, den: u64) -> bool {
        self.below(den) < num
    }
    pub fn pick<'a, T>(&mut self, v: &'a [T]) -> &'a T {
        &v[self.usize(v.len())]
    }
    pub fn shuffle<T>(&mut self, v: &mut [T]) {
        for i in (1..v.len()).rev() {
            let j = self.usize(i + 1);
            v.swap(i, j);
        }
    }
    /// k distinct values below n
    pub fn distinct(&mut self, k: usize, n: usize) -> Vec<usize> {
        let mut v: Vec<usize> = vec![];
        while v.len() < k {
            let c = self.usize(n);
            if !v.contains(&c) {
                v.push(c);
            }
        }
        v
    }
}
