//! C15: interleaved and concurrent iteration of many evaluators against each evaluator's solo run.
use crate::flop::{random_cfg, Cfg};
use crate::proj::*;
use crate::{Args, Out};
use std::sync::Arc;

/// everything observable about one showdown, as integers: turn, river, hole cards, probability bits, power indexes, winner flags
fn item(sd: &espada::evaluator::Showdown) -> Vec<usize> {
    let mut v = crate::flop::item(sd);
    v.push(sd.probability().to_bits() as usize);
    for p in sd.players() {
        v.push(p.hand().power_index() as usize);
    }
    for p in sd.players() {
        v.push(p.is_winner() as usize);
    }
    v
}

/// order-sensitive 62-bit digest of a long run (two 31-bit halves, TLC integers are 32-bit)
struct Digest(u64, usize);
impl Digest {
    fn new() -> Digest {
        Digest(0xcbf2_9ce4_8422_2325, 0)
    }
    fn add(&mut self, it: &[usize]) {
        for x in it {
            self.0 ^= *x as u64;
            self.0 = self.0.wrapping_mul(0x0000_0100_0000_01B3);
        }
        self.0 ^= 0xff;
        self.0 = self.0.wrapping_mul(0x0000_0100_0000_01B3);
        self.1 += 1;
    }
    fn json(&self) -> String {
        format!("[{},{},{}]", (self.0 >> 33) & 0x7fff_ffff, (self.0 >> 2) & 0x7fff_ffff, self.1)
    }
}

fn items_json(items: &[Vec<usize>]) -> String {
    let v: Vec<String> = items.iter().map(|i| list(i)).collect();
    format!("[{}]", v.join(","))
}

/// the pool of configurations, a deterministic function of the seed (parent and children agree on it)
fn pool(seed: u64, n: usize) -> Vec<Cfg> {
    let mut rng = Rng::new(seed ^ 0xC15);
    let mut v = vec![];
    for i in 0..n {
        // short windows so that a few calls reach exhaustion; different flops so that a leaked deck would show
        let w = [2usize, 3, 5, 8, 40][i % 5];
        let mut c = random_cfg(&mut rng, 2, 3, w);
        if i % 7 == 6 {
            c.scoped = false;
            c.from = (0, 1);
            c.to = (48, 49);
            c.ranges.truncate(1);
            c.ranges[0].truncate(2);
        }
        if i % 10 == 2 || i % 10 == 6 {
            // flops drawn wholly from one end of the deck (the five lowest ranks, or the five highest): several evaluators of a
            // run then agree on every flop card outside that end - whatever a shortened key of the flop would keep
            let busy: Vec<usize> = c.ranges.iter().flat_map(|r| r.iter().flat_map(|e| [e.a, e.b])).collect();
            let (lo, hi) = if i % 10 == 2 { (32usize, 52usize) } else { (0usize, 20usize) };
            let free: Vec<usize> = (lo..hi).filter(|k| !busy.contains(k)).collect();
            if free.len() >= 3 {
                let pick = rng.distinct(3, free.len());
                c.flop = [free[pick[0]], free[pick[1]], free[pick[2]]];
            }
        }
        if i % 20 == 8 {
            // a player without any hand (an empty range, or notation that parses to nothing): an evaluator that yields nothing,
            // polled among the others
            c.ranges.push(vec![]);
        }
        v.push(c.clone());
        if i % 4 == 1 && v.len() < n {
            // the same combos seat by seat with other weights, right after the original: only probability() tells them apart
            let mut d = c.clone();
            for r in d.ranges.iter_mut() {
                for e in r.iter_mut() {
                    e.m = 3;
                    e.e = 2 + (e.a % 2) as u32;
                }
            }
            v.push(d);
        }
        if i % 4 == 3 && v.len() < n {
            // the pair is only worth something if it yields showdowns: an empty window is widened by three positions
            if c.scoped && c.from == c.to && c.from.0 < 46 {
                c.to = crate::flop::succ(crate::flop::succ(crate::flop::succ(c.from)));
                let last = v.len() - 1;
                v[last].to = c.to;
            }
            // the same ranges and scope on another flop, right after the original: same seats, turn and river cards mostly the same
            // (one flop card replaced: by the next rank of the same suit, or by the card 16 or 32 ids away - the flops then agree
            // on every card but one and on most bits of that one, whatever a packed or shortened key of the flop would keep)
            let busy: Vec<usize> = c.ranges.iter().flat_map(|r| r.iter().flat_map(|e| [e.a, e.b])).collect();
            // a near twin (next rank, same suit: the two decks are the same card for card almost everywhere, so the evaluators
            // meet the same turn, river and hole cards at the same time) ...
            let mut steps = vec![4usize];
            // ... and, for every second pair, a far twin as well (16, 32 or 48 ids away: the same low bits of the card id)
            if i % 8 == 7 {
                steps.push([16usize, 32, 48][(i / 8) % 3]);
            }
            for step in steps {
                let mut d = c.clone();
                let mut f = d.flop;
                let which = if step == 4 { 0 } else { (i / 8) % 3 };
                let mut k = if f[which] + step < 52 { f[which] + step } else if f[which] >= step { f[which] - step } else { (f[which] + 4) % 52 };
                while f.contains(&k) || busy.contains(&k) {
                    k = (k + 4) % 52;
                }
                f[which] = k;
                d.flop = f;
                if v.len() < n {
                    v.push(d);
                }
            }
        }
        if v.len() >= n {
            break;
        }
    }
    v.truncate(n);
    // appended after the n configurations (so that nothing above moves): pairs on two different flops made of the same three
    // ranks and the same suits, the suits of two cards exchanged (Jh9d3c / Jd9h3c) - equal under any key built from the
    // flop's rank set and suit set; same ranges, so the twin block of record_c15 runs them alternately in both creation orders
    for t in 0..2usize {
        let mut c = v[(5 * t + 1) % v.len()].clone();
        c.ranges.retain(|r| !r.is_empty());
        let busy: Vec<usize> = c.ranges.iter().flat_map(|r| r.iter().flat_map(|e| [e.a, e.b])).collect();
        let mut tries = 0;
        loop {
            tries += 1;
            // ace and king on the flop: the two decks differ within their first six cards, inside the window below
            let r = [0usize, 1, 2 + rng.usize(11)];
            let su = rng.distinct(3, 4);
            let (f1, f2) = if t == 0 {
                ([4 * r[0] + su[0], 4 * r[1] + su[1], 4 * r[2] + su[2]], [4 * r[0] + su[1], 4 * r[1] + su[0], 4 * r[2] + su[2]])
            } else {
                // a pair on the flop: JhJd3c / JhJc3d
                ([4 * r[0] + su[0], 4 * r[0] + su[1], 4 * r[2] + su[2]], [4 * r[0] + su[0], 4 * r[0] + su[2], 4 * r[2] + su[1]])
            };
            if tries < 500 && f1.iter().chain(f2.iter()).any(|k| busy.contains(k)) {
                continue;
            }
            c.scoped = true;
            c.from = (0, 1);
            c.to = (0, 9);
            let mut d = c.clone();
            c.flop = f1;
            d.flop = f2;
            v.push(c);
            v.push(d);
            break;
        }
    }
    v
}

/// a few configurations with long runs (~10^5 showdowns each) for the concurrent digest runs
fn big_pool(seed: u64) -> Vec<Cfg> {
    let mut rng = Rng::new(seed ^ 0xB16);
    (0..4)
        .map(|_| {
            let mut c = random_cfg(&mut rng, 1, 1, 1);
            let f = c.flop;
            c.ranges = vec![crate::flop::random_range(&mut rng, 20, &f, &[]), crate::flop::random_range(&mut rng, 16, &f, &[])];
            c.scoped = false;
            c.from = (0, 1);
            c.to = (48, 49);
            c
        })
        .collect()
}

fn digest_of(c: &Cfg) -> Option<String> {
    let c = c.clone();
    guarded(move || {
        let mut d = Digest::new();
        let cap = c.max_deals();
        for sd in c.evaluator() {
            d.add(&item(&sd));
            if d.1 > cap {
                break;
            }
        }
        d.json()
    })
}

/// child process: iterate configuration `--index` of the pool alone and print its items
pub fn solo_child(args: &Args, mut out: Out) -> usize {
    if args.num("big", 0) == 1 {
        let c = big_pool(args.num("seed", 1))[args.num("index", 0) as usize].clone();
        match digest_of(&c) {
            Some(d) => out.line(&format!("{{\"outcome\":\"ok\",\"digest\":{}}}", d)),
            None => out.line("{\"outcome\":\"panic\",\"digest\":[0,0,0]}"),
        }
        return out.finish();
    }
    let p = pool(args.num("seed", 1), args.num("pool", 40) as usize);
    let c = p[args.num("index", 0) as usize].clone();
    let cap = c.max_deals() + 1;
    let r = guarded(move || c.evaluator().into_iter().take(cap).map(|sd| item(&sd)).collect::<Vec<_>>());
    match r {
        Some(items) => out.line(&format!("{{\"outcome\":\"ok\",\"items\":{}}}", items_json(&items))),
        None => out.line("{\"outcome\":\"panic\",\"items\":[]}"),
    }
    out.finish()
}

pub fn record_c15(args: &Args, mut out: Out) -> usize {
    let seed = args.num("seed", 1);
    let npool = args.num("pool", 40) as usize;
    let mut rng = Rng::new(seed);
    let p = pool(seed, npool);
    // solo runs: each in a process of its own, started before anything else exists in this process
    let exe = std::env::current_exe().unwrap();
    let mut solo_line = vec![];
    let mut solo_text: Vec<String> = vec![];
    for i in 0..p.len() {
        let o = std::process::Command::new(&exe)
            .args(["c15-solo", "--seed", &seed.to_string(), "--pool", &npool.to_string(), "--index", &i.to_string()])
            .output()
            .expect("cannot start child");
        let text = String::from_utf8_lossy(&o.stdout);
        let body = text.lines().find(|l| l.starts_with('{')).map(|l| l[1..l.len() - 1].to_string()).unwrap_or("\"outcome\":\"died\",\"items\":[]".to_string());
        out.line(&format!("{{\"op\":\"solo\",\"id\":{},{},{}}}", i, p[i].json_fields(), body));
        solo_line.push(out.n);
        solo_text.push(body.clone());
    }
    // every interleaving enumerated by TLC (spec/Workers.tla), replayed on one thread against live iterators
    if let Some(path) = args.get("schedules") {
        let text = std::fs::read_to_string(path).unwrap();
        for (si, line) in text.lines().enumerate() {
            let sched: Vec<usize> = serde_json::from_str::<Vec<usize>>(line).unwrap();
            let n = *sched.iter().max().unwrap();
            let ids: Vec<usize> = (0..n).map(|j| (si * 3 + j * 11 + si / 40) % npool).collect();
            inter_event(&p, &ids, &sched, &solo_line, &mut out);
        }
    }
    // twins: two live iterators over the same combos seat by seat, differing only in weights, created one right after
    // the other, called alternately (both creation orders)
    for i in 0..p.len() {
        for j in [i + 1, i + 2] {
            if j >= p.len() {
                continue;
            }
            let same = p[i].ranges.len() == p[j].ranges.len()
                && p[i].ranges.iter().zip(p[j].ranges.iter()).all(|(a, b)| a.len() == b.len() && a.iter().zip(b.iter()).all(|(x, y)| x.a == y.a && x.b == y.b));
            if same {
                let sched: Vec<usize> = (0..24).map(|k| 1 + k % 2).collect();
                inter_event(&p, &[i, j], &sched, &solo_line, &mut out);
                inter_event(&p, &[j, i], &sched, &solo_line, &mut out);
            }
        }
    }
    // churn: one iterator is advanced a little, then 80 evaluators over 80 other flops are created and advanced one step
    // (kept alive), then the first one is drained
    for round in 0..2usize {
        // an unscoped configuration (a complete run: more than 400 showdowns)
        let unscoped: Vec<usize> = (0..npool).filter(|&i| !p[i].scoped).collect();
        if unscoped.is_empty() {
            break;
        }
        let a = unscoped[round % unscoped.len()];
        let cfg = p[a].clone();
        let mut flops: Vec<[usize; 3]> = vec![];
        for i in 0..80usize {
            let f = [(i * 7) % 52, (i * 7 + 11 + i / 8) % 52, (i * 7 + 29 + i / 3) % 52];
            if f[0] != f[1] && f[1] != f[2] && f[0] != f[2] {
                flops.push(f);
            }
        }
        let r = guarded(move || {
            let mut first = cfg.evaluator().into_iter();
            let mut results = vec![];
            for _ in 0..5 {
                results.push(first.next().map(|sd| list(&item(&sd))).unwrap_or("[]".to_string()));
            }
            let mut others = vec![];
            for f in &flops {
                let c = Cfg { flop: *f, ranges: vec![vec![crate::flop::Entry { a: (f[0] + 1) % 52, b: (f[0] + 2) % 52, m: 1, e: 0 }]], from: (0, 1), to: (0, 3), scoped: true };
                if c.ranges[0][0].a != c.ranges[0][0].b && !f.contains(&c.ranges[0][0].a) && !f.contains(&c.ranges[0][0].b) {
                    let mut it = c.evaluator().into_iter();
                    let _ = it.next();
                    others.push(it);
                }
            }
            for _ in 0..400 {
                results.push(first.next().map(|sd| list(&item(&sd))).unwrap_or("[]".to_string()));
            }
            (results, others.len())
        });
        let sched: Vec<usize> = vec![1; 405];
        match r {
            Some((results, _)) => out.line(&format!("{{\"op\":\"inter\",\"ids\":[{}],\"sched\":{},\"results\":[{}],\"churn\":80}}", solo_line[a], list(&sched), results.join(","))),
            None => out.line(&format!("{{\"op\":\"inter\",\"ids\":[{}],\"sched\":{},\"results\":[],\"churn\":80}}", solo_line[a], list(&sched))),
        }
    }
    // random schedules over 2..6 live iterators until all are exhausted (+ a few calls more)
    for _ in 0..args.num("random", 60) {
        let n = 2 + rng.usize(5);
        let ids: Vec<usize> = (0..n).map(|_| rng.usize(npool)).collect();
        let mut sched = vec![];
        for _ in 0..(40 + rng.usize(200)) {
            sched.push(1 + rng.usize(n));
        }
        inter_event(&p, &ids, &sched, &solo_line, &mut out);
    }
    // concurrent threads, each draining its own evaluator; inputs shared through Arc as in the example
    let threads = args.num("threads", 16) as usize;
    let rounds = args.num("rounds", 3) as usize;
    let shared = Arc::new(p.clone());
    for _ in 0..rounds {
        let ids: Vec<usize> = (0..threads).map(|_| rng.usize(npool)).collect();
        let barrier = Arc::new(std::sync::Barrier::new(threads));
        let mut hs = vec![];
        for (t, &id) in ids.iter().enumerate() {
            let (shared, barrier) = (shared.clone(), barrier.clone());
            hs.push(std::thread::spawn(move || {
                let ev = shared[id].evaluator();
                let cap = shared[id].max_deals();
                barrier.wait();
                let r = guarded(move || {
                    let mut it = ev.into_iter();
                    let mut items = vec![];
                    while let Some(sd) = it.next() {
                        if items.len() > cap {
                            break;
                        }
                        items.push(item(&sd));
                        if items.len() % 64 == 0 {
                            std::thread::yield_now();
                        }
                    }
                    let after = (0..2).filter(|_| it.next().is_some()).count();
                    (items, after)
                });
                (t, id, r)
            }));
        }
        for h in hs {
            let (t, id, r) = h.join().unwrap();
            match r {
                Some((items, after)) => out.line(&format!("{{\"op\":\"thread\",\"id\":{},\"thread\":{},\"items\":{},\"after\":{}}}", solo_line[id], t, items_json(&items), after)),
                None => out.line(&format!("{{\"op\":\"thread\",\"id\":{},\"thread\":{},\"items\":[[-2]],\"after\":-2}}", solo_line[id], t)),
            }
        }
    }
    // construction storm: every thread builds, drains and drops evaluators with short runs over and over, neighbouring
    // threads always on different flops.  The items of each run are compared here with what the child process recorded
    // for the same configuration; a run that differs is logged as a `thread` event (TLC judges it against the solo event),
    // and one `storm` event per thread says how many runs there were.
    {
        let per = args.num("storm", 6000) as usize;
        let mut short: Vec<(usize, Vec<Vec<usize>>)> = vec![];
        for i in 0..npool {
            if let Some(line) = solo_text.get(i) {
                if let Ok(v) = serde_json::from_str::<serde_json::Value>(&format!("{{{}}}", line)) {
                    if v["outcome"] == "ok" {
                        let items: Vec<Vec<usize>> = v["items"].as_array().map(|a| a.iter().map(|x| x.as_array().map(|y| y.iter().map(|z| z.as_u64().unwrap_or(0) as usize).collect()).unwrap_or_default()).collect()).unwrap_or_default();
                        if !items.is_empty() && items.len() <= 12 {
                            short.push((i, items));
                        }
                    }
                }
            }
        }
        if !short.is_empty() && per > 0 {
            let short = Arc::new(short);
            let barrier = Arc::new(std::sync::Barrier::new(threads));
            let mut hs = vec![];
            for t in 0..threads {
                let (shared, short, barrier) = (shared.clone(), short.clone(), barrier.clone());
                hs.push(std::thread::spawn(move || {
                    barrier.wait();
                    let mut devs: Vec<(usize, Option<(Vec<Vec<usize>>, usize)>)> = vec![];
                    for r in 0..per {
                        let (id, want) = &short[(t + r) % short.len()];
                        let cfg = &shared[*id];
                        let cap = want.len() + 2;
                        let got = guarded(|| {
                            let mut it = cfg.evaluator().into_iter();
                            let mut items = vec![];
                            while let Some(sd) = it.next() {
                                items.push(item(&sd));
                                if items.len() > cap {
                                    break;
                                }
                            }
                            let after = (0..2).filter(|_| it.next().is_some()).count();
                            (items, after)
                        });
                        let same = match &got {
                            Some((items, after)) => items == want && *after == 0,
                            None => false,
                        };
                        if !same && devs.len() < 3 {
                            devs.push((*id, got));
                        }
                    }
                    (t, devs)
                }));
            }
            for h in hs {
                let (t, devs) = h.join().unwrap();
                out.line(&format!("{{\"op\":\"storm\",\"thread\":{},\"runs\":{},\"configs\":{},\"differing\":{}}}", t, per, short.len(), devs.len()));
                for (id, got) in devs {
                    match got {
                        Some((items, after)) => out.line(&format!("{{\"op\":\"thread\",\"id\":{},\"thread\":{},\"items\":{},\"after\":{},\"storm\":1}}", solo_line[id], t, items_json(&items), after)),
                        None => out.line(&format!("{{\"op\":\"thread\",\"id\":{},\"thread\":{},\"items\":[[-2]],\"after\":-2,\"storm\":1}}", solo_line[id], t)),
                    }
                }
            }
        }
    }
    // long concurrent runs: every thread drains its own evaluator of ~10^5 showdowns; each run is compared with the
    // digest of the same configuration drained alone in a child process
    let bigs = big_pool(seed);
    let mut big_line = vec![];
    for i in 0..bigs.len() {
        let o = std::process::Command::new(&exe)
            .args(["c15-solo", "--seed", &seed.to_string(), "--big", "1", "--index", &i.to_string()])
            .output()
            .expect("cannot start child");
        let text = String::from_utf8_lossy(&o.stdout);
        let body = text.lines().find(|l| l.starts_with('{')).map(|l| l[1..l.len() - 1].to_string()).unwrap_or("\"outcome\":\"died\",\"digest\":[0,0,0]".to_string());
        out.line(&format!("{{\"op\":\"solo\",\"id\":{},\"big\":1,{},{}}}", 1000 + i, bigs[i].json_fields(), body));
        big_line.push(out.n);
    }
    let shared_big = Arc::new(bigs);
    for _ in 0..args.num("big-rounds", 1) {
        let barrier = Arc::new(std::sync::Barrier::new(threads));
        let mut hs = vec![];
        for t in 0..threads {
            let (sb, barrier) = (shared_big.clone(), barrier.clone());
            let id = t % sb.len();
            hs.push(std::thread::spawn(move || {
                barrier.wait();
                (t, id, digest_of(&sb[id]))
            }));
        }
        for h in hs {
            let (t, id, d) = h.join().unwrap();
            out.line(&format!("{{\"op\":\"bigthread\",\"id\":{},\"thread\":{},\"digest\":{}}}", big_line[id], t, d.unwrap_or("[0,0,0]".to_string())));
        }
    }
    out.finish()
}

fn inter_event(p: &[Cfg], ids: &[usize], sched: &[usize], solo_line: &[usize], out: &mut Out) {
    let cfgs: Vec<Cfg> = ids.iter().map(|&i| p[i].clone()).collect();
    let sc = sched.to_vec();
    let r = guarded(move || {
        let mut its: Vec<_> = cfgs.iter().map(|c| c.evaluator().into_iter()).collect();
        let mut results = vec![];
        for &j in &sc {
            match its[j - 1].next() {
                Some(sd) => results.push(list(&item(&sd))),
                None => results.push("[]".to_string()),
            }
        }
        results
    });
    let idl: Vec<usize> = ids.iter().map(|&i| solo_line[i]).collect();
    match r {
        Some(results) => out.line(&format!("{{\"op\":\"inter\",\"ids\":{},\"sched\":{},\"results\":[{}]}}", list(&idl), list(sched), results.join(","))),
        None => out.line(&format!("{{\"op\":\"inter\",\"ids\":{},\"sched\":{},\"results\":[]}}", list(&idl), list(sched))),
    }
}
