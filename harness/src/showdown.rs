//! C03: Showdown::new on random boards, generated tie families and board collisions.
use crate::proj::*;
use crate::{Args, Out};
use espada::evaluator::Showdown;

pub fn showdown_json(sd: &Showdown) -> String {
    let ps = sd.players();
    let idx: Vec<u16> = ps.iter().map(|p| p.hand().power_index()).collect();
    let win: Vec<u8> = ps.iter().map(|p| p.is_winner() as u8).collect();
    let holes: Vec<String> = ps.iter().map(|p| { let (a, b) = pair_ids(&p.hole_cards()); format!("[{},{}]", a, b) }).collect();
    let cards: Vec<String> = ps.iter().map(|p| list(&p.cards().iter().map(card_id).collect::<Vec<_>>())).collect();
    let pboard: Vec<String> = ps.iter().map(|p| list(&p.board().iter().map(card_id).collect::<Vec<_>>())).collect();
    format!(
        "\"none\":0,\"idx\":{},\"win\":{},\"wl\":{},\"holes\":[{}],\"cards\":[{}],\"pboard\":[{}],\"sboard\":{},\"prob\":{}",
        list(&idx), list(&win), sd.winner_len(), holes.join(","), cards.join(","), pboard.join(","),
        list(&sd.board().iter().map(card_id).collect::<Vec<_>>()), wbits(sd.probability().to_bits())
    )
}

/// one call of Showdown::new as an event
fn call_json(board: &[usize], players: &[(usize, usize)], p: f32) -> String {
    let b = [card(board[0]), card(board[1]), card(board[2]), card(board[3]), card(board[4])];
    let ps: Vec<_> = players.iter().map(|(x, y)| pair(*x, *y)).collect();
    let r = guarded(move || Showdown::new(ps, b, p).map(|sd| showdown_json(&sd)));
    let pl: Vec<String> = players.iter().map(|(x, y)| format!("[{},{}]", x, y)).collect();
    let head = format!("{{\"op\":\"showdown\",\"board\":{},\"players\":[{}],\"p\":{},", list(board), pl.join(","), wbits(p.to_bits()));
    match r {
        Some(Some(body)) => format!("{}{}}}", head, body),
        Some(None) => format!("{}\"none\":1}}", head),
        None => format!("{}\"none\":-2}}", head),
    }
}

fn event(board: &[usize], players: &[(usize, usize)], p: f32, out: &mut Out) {
    out.line(&call_json(board, players, p));
}

/// draw `k` distinct cards not in `used`, from the ranks allowed by `band` (None = all)
fn draw(rng: &mut Rng, used: &mut Vec<usize>, k: usize, band: Option<(usize, usize)>) -> Vec<usize> {
    let mut v = vec![];
    let mut guard = 0;
    while v.len() < k {
        guard += 1;
        let c = match band {
            Some((lo, n)) if guard < 2000 => 4 * (lo + rng.usize(n)) + rng.usize(4),
            _ => rng.usize(52),
        };
        if !used.contains(&c) {
            used.push(c);
            v.push(c);
        }
    }
    v
}

pub fn record(args: &Args, mut out: Out) -> usize {
    let mut rng = Rng::new(args.num("seed", 1));
    let n = args.num("n", 8000) as usize;
    let probs = [1.0f32, 0.5, 0.25, 0.0, 0.125, 0.3, 0.999];
    for i in 0..n {
        let p = *rng.pick(&probs);
        let np = 1 + rng.usize(10);
        let mut used = vec![];
        match i % 8 {
            // uniformly random
            0 | 1 => {
                let board = draw(&mut rng, &mut used, 5, None);
                let pl: Vec<(usize, usize)> = (0..np).map(|_| { let h = draw(&mut rng, &mut used, 2, None); (h[0], h[1]) }).collect();
                event(&board, &pl, p, &mut out);
            }
            // a narrow band of ranks: many ties, many full houses / quads / straights
            2 | 3 => {
                let lo = rng.usize(9);
                let w = 5 - rng.usize(2);
                let board = draw(&mut rng, &mut used, 5, Some((lo, w)));
                let npb = 1 + rng.usize(6);
                let pl: Vec<(usize, usize)> = (0..npb).map(|_| { let h = draw(&mut rng, &mut used, 2, Some((lo, w))); (h[0], h[1]) }).collect();
                event(&board, &pl, p, &mut out);
            }
            // the board plays for everyone: a straight flush or broadway on board, low hole cards
            4 => {
                let s = rng.usize(4);
                let top = rng.usize(9);
                let board: Vec<usize> = (0..5).map(|k| 4 * (top + k) + if rng.chance(1, 2) { s } else { (s + k) % 4 }).collect();
                used.extend(board.iter());
                let mut b = board.clone();
                rng.shuffle(&mut b);
                let pl: Vec<(usize, usize)> = (0..np).map(|_| { let h = draw(&mut rng, &mut used, 2, Some((8, 5))); (h[0], h[1]) }).collect();
                event(&b, &pl, p, &mut out);
            }
            // same two ranks in different suits for k players (k-way tie unless a flush appears), others random
            5 | 6 => {
                let board = draw(&mut rng, &mut used, 5, None);
                let (r1, r2) = (rng.usize(13), rng.usize(13));
                let mut pl = vec![];
                let k = 2 + rng.usize(3);
                let off = rng.usize(4);
                for j in 0..k {
                    let (a, b) = (4 * r1 + (j + off) % 4, 4 * r2 + (j + off + 1) % 4);
                    if a != b && !used.contains(&a) && !used.contains(&b) {
                        used.push(a);
                        used.push(b);
                        pl.push((a, b));
                    }
                }
                for _ in 0..rng.usize(4) {
                    let h = draw(&mut rng, &mut used, 2, None);
                    pl.push((h[0], h[1]));
                }
                if pl.is_empty() {
                    let h = draw(&mut rng, &mut used, 2, None);
                    pl.push((h[0], h[1]));
                }
                rng.shuffle(&mut pl);
                event(&board, &pl, p, &mut out);
            }
            // a hole card lies on the board (any player, either card)
            _ => {
                let board = draw(&mut rng, &mut used, 5, None);
                let mut pl: Vec<(usize, usize)> = (0..np).map(|_| { let h = draw(&mut rng, &mut used, 2, None); (h[0], h[1]) }).collect();
                let j = rng.usize(pl.len());
                let bc = board[rng.usize(5)];
                if rng.chance(1, 2) { pl[j].0 = bc } else { pl[j].1 = bc }
                if pl[j].0 != pl[j].1 {
                    event(&board, &pl, p, &mut out);
                }
            }
        }
    }
    // consecutive calls that share a part of their arguments: the same players on boards that keep a random non-empty subset
    // of the previous board's positions (only turn and river, only the flop, one card, four cards) - whatever a memo
    // keyed on part of the board would keep from the call before.  Every call is an ordinary event judged on its own.
    for g in 0..(n / 8) {
        let p = *rng.pick(&probs);
        let np = 2 + rng.usize(4);
        let mut used = vec![];
        let mut board = draw(&mut rng, &mut used, 5, None);
        let pl: Vec<(usize, usize)> = (0..np).map(|_| { let h = draw(&mut rng, &mut used, 2, None); (h[0], h[1]) }).collect();
        event(&board, &pl, p, &mut out);
        for m in 0..3usize {
            let keep: usize = match (g + m) % 4 { 0 => 0b11000, 1 => 0b00111, _ => 1 + rng.usize(30) };
            for k in 0..5 {
                if keep >> k & 1 == 0 {
                    let c = draw(&mut rng, &mut used, 1, None);
                    board[k] = c[0];
                }
            }
            event(&board, &pl, p, &mut out);
        }
    }
    // the result of a call is a function of its arguments: a fixed set of calls (several lead changes each, some
    // refused) repeated many times on this one thread; a repetition whose result differs from the first one is logged
    // as an ordinary event, which TLC then judges (the first result of every call is logged and judged as well)
    let reps = args.num("volume", 120_000) as usize;
    let mut fixed: Vec<(Vec<usize>, Vec<(usize, usize)>)> = vec![];
    for _ in 0..24 {
        let mut used = vec![];
        let board = draw(&mut rng, &mut used, 5, None);
        let np = 3 + rng.usize(4);
        let mut pl: Vec<(usize, usize)> = (0..np).map(|_| { let h = draw(&mut rng, &mut used, 2, None); (h[0], h[1]) }).collect();
        if fixed.len() % 6 == 5 {
            pl[np - 1].0 = board[2]; // refused: a hole card on the board, found at the last seat
        }
        fixed.push((board, pl));
    }
    let first: Vec<String> = fixed.iter().map(|(b, pl)| call_json(b, pl, 0.5)).collect();
    for f in &first {
        out.line(f);
    }
    let mut deviating = 0;
    for k in 0..reps {
        let i = (k * 7 + k / 24) % fixed.len();
        let j = call_json(&fixed[i].0, &fixed[i].1, 0.5);
        if j != first[i] && deviating < 50 {
            out.line(&j);
            deviating += 1;
        }
    }
    out.line(&format!("{{\"op\":\"volume\",\"calls\":{},\"deviating\":{}}}", reps, deviating));
    out.finish()
}
