//! C11: complete runs of a configuration and of its images under suit / seat permutations,
//! summarised as win patterns and the integer tallies of the README loop.
use crate::flop::*;
use crate::proj::*;
use crate::{Args, Out};
use std::collections::BTreeMap;

fn sigma_card(sg: &[usize; 4], c: usize) -> usize {
    4 * (c / 4) + sg[c % 4]
}

fn image(cfg: &Cfg, sg: &[usize; 4], pi: &[usize]) -> Cfg {
    let n = cfg.ranges.len();
    let mut ranges: Vec<Vec<Entry>> = vec![vec![]; n];
    for i in 0..n {
        let mut r: Vec<Entry> = cfg.ranges[i]
            .iter()
            .map(|e| {
                let (a, b) = norm(sigma_card(sg, e.a), sigma_card(sg, e.b));
                Entry { a, b, m: e.m, e: e.e }
            })
            .collect();
        r.reverse(); // a different construction order of the same range
        ranges[pi[i]] = r;
    }
    Cfg { flop: [sigma_card(sg, cfg.flop[0]), sigma_card(sg, cfg.flop[1]), sigma_card(sg, cfg.flop[2])], ranges, from: (0, 1), to: (48, 49), scoped: false }
}

fn run_event(cfg: &Cfg, base: usize, sg: &[usize; 4], pi: &[usize], out: &mut Out) {
    let c = cfg.clone();
    let n = cfg.ranges.len();
    let r = guarded(move || {
        // the README loop, with integers: tally[p][k-1] += 1 for every winner p of a showdown with k winners
        let mut tally = vec![vec![0u64; n]; n];
        let mut patterns: BTreeMap<(u8, Vec<u8>), u64> = BTreeMap::new();
        let mut count = 0u64;
        let cap = c.max_deals() as u64;
        for showdown in c.evaluator() {
            if count > cap {
                break;
            }
            let wl = showdown.winner_len();
            let mut flags = vec![];
            for (player_index, player) in showdown.players().into_iter().enumerate() {
                if player.is_winner() {
                    if wl >= 1 && (wl as usize) <= n {
                        tally[player_index][wl as usize - 1] += 1;
                    }
                    flags.push(1u8);
                } else {
                    flags.push(0u8);
                }
            }
            *patterns.entry((wl, flags)).or_insert(0) += 1;
            count += 1;
        }
        (tally, patterns, count)
    });
    let pij: Vec<usize> = pi.iter().map(|x| x + 1).collect();
    let head = format!("{{\"op\":\"run\",\"base\":{},\"sigma\":{},\"pi\":{},{}", base, list(sg), list(&pij), cfg.json_fields());
    match r {
        Some((tally, patterns, count)) => {
            let ts: Vec<String> = tally.iter().map(|t| list(t)).collect();
            let ps: Vec<String> = patterns.iter().map(|((wl, fl), c)| format!("[{},{},{}]", wl, list(fl), c)).collect();
            out.line(&format!("{},\"outcome\":\"ok\",\"count\":{},\"tally\":[{}],\"patterns\":[{}]}}", head, count, ts.join(","), ps.join(",")));
        }
        None => out.line(&format!("{},\"outcome\":\"panic\",\"count\":0,\"tally\":[],\"patterns\":[]}}", head)),
    }
}

fn perms(n: usize) -> Vec<Vec<usize>> {
    fn rec(cur: &mut Vec<usize>, n: usize, out: &mut Vec<Vec<usize>>) {
        if cur.len() == n {
            out.push(cur.clone());
            return;
        }
        for i in 0..n {
            if !cur.contains(&i) {
                cur.push(i);
                rec(cur, n, out);
                cur.pop();
            }
        }
    }
    let mut out = vec![];
    rec(&mut vec![], n, &mut out);
    out
}

pub fn record_c11(args: &Args, mut out: Out) -> usize {
    let mut rng = Rng::new(args.num("seed", 1));
    let nbase = args.num("bases", 12) as usize;
    let nsig = args.num("sigmas", 6) as usize;
    let all_sigma: Vec<[usize; 4]> = perms(4).into_iter().map(|p| [p[0], p[1], p[2], p[3]]).collect();
    for b in 0..nbase {
        // bases that make suits matter: flush-heavy flops, suited combos, overlapping cards, ties
        let mut cfg = match b % 9 {
            0 => random_cfg(&mut rng, 2, 4, 1),
            1 => random_cfg(&mut rng, 3, 3, 1),
            2 => {
                // monotone / two-tone flop with suited hands
                let s = rng.usize(4);
                let rs = rng.distinct(3, 13);
                let flop = [4 * rs[0] + s, 4 * rs[1] + s, 4 * rs[2] + if rng.chance(1, 2) { s } else { (s + 1) % 4 }];
                let mut ranges = vec![];
                for _ in 0..2 {
                    let mut r = vec![];
                    for _ in 0..(1 + rng.usize(3)) {
                        let u = rng.usize(4);
                        let q = rng.distinct(2, 13);
                        let (a, bb) = norm(4 * q[0] + u, 4 * q[1] + if rng.chance(2, 3) { u } else { (u + 1) % 4 });
                        if !flop.contains(&a) && !flop.contains(&bb) && !r.iter().any(|e: &Entry| e.a == a && e.b == bb) {
                            r.push(Entry { a, b: bb, m: 1 + 2 * rng.usize(3) as u32, e: 1 + rng.usize(2) as u32 });
                        }
                    }
                    if r.is_empty() {
                        r.push(Entry { a: 0, b: 5, m: 1, e: 0 });
                    }
                    ranges.push(r);
                }
                Cfg { flop, ranges, from: (0, 1), to: (48, 49), scoped: false }
            }
            7 => {
                // the board can play for everyone: a flop of three broadway cards of one suit (the royal flush can come on
                // turn and river), players holding small pairs and rags
                let s = rng.usize(4);
                let mut top = vec![0usize, 1, 2, 3, 4];
                rng.shuffle(&mut top);
                let flop = [4 * top[0] + s, 4 * top[1] + s, 4 * top[2] + s];
                let o = (s + 1) % 4;
                let ranges = vec![
                    vec![Entry { a: 4 * 12 + o, b: 4 * 12 + (o + 1) % 4, m: 1, e: 0 }, Entry { a: 4 * 11 + o, b: 4 * 11 + (o + 2) % 4, m: 1, e: 1 }],
                    vec![Entry { a: 4 * 10 + o, b: 4 * 10 + (o + 1) % 4, m: 1, e: 0 }],
                    vec![Entry { a: 4 * 9 + o, b: 4 * 8 + (o + 1) % 4, m: 3, e: 2 }],
                ];
                Cfg { flop, ranges, from: (0, 1), to: (48, 49), scoped: false }
            }
            8 => {
                // both players' ranges contain hands with the first and with the last card of the deck (As, 2c)
                let f = loop {
                    let f = rng.distinct(3, 52);
                    if !f.contains(&0) && !f.contains(&51) {
                        break f;
                    }
                };
                let mk = |others: &[usize], c: usize| -> Vec<Entry> { others.iter().filter(|o| !f.contains(o) && **o != c).map(|&o| { let (a, b) = norm(c, o); Entry { a, b, m: 1, e: 1 } }).collect() };
                let mut r1 = mk(&[50, 49, 3], 51);
                r1.extend(mk(&[1, 4], 0));
                let mut r2 = mk(&[48, 47, 7], 51);
                r2.extend(mk(&[2, 8], 0));
                Cfg { flop: [f[0], f[1], f[2]], ranges: vec![r1, r2], from: (0, 1), to: (48, 49), scoped: false }
            }
            6 => {
                // a suit-symmetric range of more than 256 combos (all pockets, every suited and offsuit ace) against one combo
                let mut big = vec![];
                for r in 0..13 {
                    for c in pocket(r) {
                        big.push(Entry { a: c.0, b: c.1, m: 1, e: 0 });
                    }
                }
                for k in 1..13 {
                    for c in suited(0, k).into_iter().chain(ofsuit(0, k).into_iter()) {
                        big.push(Entry { a: c.0, b: c.1, m: 1, e: 1 });
                    }
                }
                let f = rng.distinct(3, 52);
                let q = rng.distinct(2, 52);
                let (a, bb) = norm(q[0], q[1]);
                Cfg { flop: [f[0], f[1], f[2]], ranges: vec![big, vec![Entry { a, b: bb, m: 1, e: 0 }]], from: (0, 1), to: (48, 49), scoped: false }
            }
            4 | 5 => {
                // flush wars inside a band of six adjacent ranks (low band 7..2, a middle band, or the top band): the flop is
                // three cards of one suit, every player holds one more card of that suit, turn/river may bring others -
                // weak flushes, straight flushes and near ties in every suit once the suits are permuted
                let s = rng.usize(4);
                let lo = match rng.usize(3) { 0 => 7, 1 => rng.usize(7), _ => 0 };     // band = ranks lo..lo+5 (codes)
                let mut band: Vec<usize> = (lo..lo + 6).collect();
                rng.shuffle(&mut band);
                let flop = [4 * band[0] + s, 4 * band[1] + s, 4 * band[2] + s];
                let np = 2 + rng.usize(2);
                let mut ranges = vec![];
                for p in 0..np {
                    let mut r = vec![];
                    let own = 4 * band[3 + p % 3] + s;
                    for _ in 0..(1 + rng.usize(2)) {
                        let side = 4 * rng.usize(13) + (s + 1 + rng.usize(3)) % 4;
                        let (a, bb) = norm(own, side);
                        if !r.iter().any(|e: &Entry| e.a == a && e.b == bb) {
                            r.push(Entry { a, b: bb, m: 1, e: rng.usize(3) as u32 });
                        }
                    }
                    ranges.push(r);
                }
                Cfg { flop, ranges, from: (0, 1), to: (48, 49), scoped: false }
            }
            _ => {
                // same ranks for both players (many chops)
                let f = rng.distinct(3, 52);
                let q = rng.distinct(2, 13);
                let r1 = vec![Entry { a: 4 * q[0].min(q[1]), b: 4 * q[0].max(q[1]) + 1, m: 1, e: 0 }];
                let r2 = vec![Entry { a: 4 * q[0].min(q[1]) + 2, b: 4 * q[0].max(q[1]) + 3, m: 3, e: 2 }, Entry { a: 4 * q[0].min(q[1]) + 1, b: 4 * q[0].max(q[1]) + 2, m: 1, e: 1 }];
                Cfg { flop: [f[0], f[1], f[2]], ranges: vec![r1, r2], from: (0, 1), to: (48, 49), scoped: false }
            }
        };
        cfg.scoped = false;
        cfg.from = (0, 1);
        cfg.to = (48, 49);
        while cfg.ranges.len() < 2 {
            let k = 1 + rng.usize(3);
            let r = random_range(&mut rng, k, &cfg.flop, &[cfg.ranges[0][0].a, cfg.ranges[0][0].b]);
            cfg.ranges.push(r);
        }
        let n = cfg.ranges.len();
        let id: Vec<usize> = (0..n).collect();
        run_event(&cfg, 0, &[0, 1, 2, 3], &id, &mut out);
        let base_line = out.n;
        let seat = perms(n);
        let mut sig = all_sigma.clone();
        rng.shuffle(&mut sig);
        for (k, sg) in sig.iter().take(nsig).enumerate() {
            let pi = if k % 2 == 0 { seat[rng.usize(seat.len())].clone() } else { id.clone() };
            let img = image(&cfg, sg, &pi);
            run_event(&img, base_line, sg, &pi, &mut out);
        }
        // every seat permutation with the identity on suits
        for pi in &seat {
            let img = image(&cfg, &[0, 1, 2, 3], pi);
            run_event(&img, base_line, &[0, 1, 2, 3], pi, &mut out);
        }
    }
    // two fixed shapes more.  (1) a weight of exactly 0 held by a player who is not listed last (the notation allows ':0'):
    // the showdowns still seat everybody and seat order still only permutes the tallies.  (2) a full table: 18 players
    // with one combo each (seat numbers beyond 8 and 16), under rotations, a reversal and swaps of the outer seats.
    {
        let f = rng.distinct(3, 52);
        let free: Vec<usize> = { let mut v: Vec<usize> = (0..52).filter(|c| !f.contains(c)).collect(); rng.shuffle(&mut v); v };
        let e = |i: usize, m: u32, ee: u32| { let (a, b) = norm(free[2 * i], free[2 * i + 1]); Entry { a, b, m, e: ee } };
        let zero = Cfg {
            flop: [f[0], f[1], f[2]],
            ranges: vec![vec![e(0, 0, 0), e(1, 1, 1)], vec![e(2, 1, 0), e(3, 3, 2)], vec![e(4, 1, 1), e(0, 1, 0)]],
            from: (0, 1), to: (48, 49), scoped: false,
        };
        let id: Vec<usize> = (0..3).collect();
        run_event(&zero, 0, &[0, 1, 2, 3], &id, &mut out);
        let base_line = out.n;
        for pi in perms(3) {
            let sg = all_sigma[rng.usize(all_sigma.len())];
            run_event(&image(&zero, &sg, &pi), base_line, &sg, &pi, &mut out);
            run_event(&image(&zero, &[0, 1, 2, 3], &pi), base_line, &[0, 1, 2, 3], &pi, &mut out);
        }
        // (3) two players holding the very same range of three hands and a third player with another one: all six seatings
        // (the twins next to each other in either order, and apart)
        let shared = vec![e(0, 1, 0), e(1, 1, 0), e(2, 1, 1)];
        let twin = Cfg {
            flop: [f[0], f[1], f[2]],
            ranges: vec![shared.clone(), shared.clone(), vec![e(3, 1, 0), e(4, 1, 0)]],
            from: (0, 1), to: (48, 49), scoped: false,
        };
        run_event(&twin, 0, &[0, 1, 2, 3], &id, &mut out);
        let base_line = out.n;
        for pi in perms(3) {
            let sg = all_sigma[rng.usize(all_sigma.len())];
            run_event(&image(&twin, &[0, 1, 2, 3], &pi), base_line, &[0, 1, 2, 3], &pi, &mut out);
            run_event(&image(&twin, &sg, &pi), base_line, &sg, &pi, &mut out);
        }
        let np = 18usize;
        let full = Cfg { flop: [f[0], f[1], f[2]], ranges: (0..np).map(|i| vec![e(i, 1, (i % 2) as u32)]).collect(), from: (0, 1), to: (48, 49), scoped: false };
        let id: Vec<usize> = (0..np).collect();
        run_event(&full, 0, &[0, 1, 2, 3], &id, &mut out);
        let base_line = out.n;
        let mut seats: Vec<Vec<usize>> = vec![];
        seats.push((0..np).map(|i| (i + 1) % np).collect());
        seats.push((0..np).map(|i| (i + 9) % np).collect());
        seats.push((0..np).rev().collect());
        for (x, y) in [(0usize, 16usize), (1, 17), (0, 8)] {
            let mut p = id.clone();
            p.swap(x, y);
            seats.push(p);
        }
        let mut p = id.clone();
        rng.shuffle(&mut p);
        seats.push(p);
        for (k, pi) in seats.iter().enumerate() {
            let sg = if k % 2 == 0 { [0, 1, 2, 3] } else { all_sigma[rng.usize(all_sigma.len())] };
            run_event(&image(&full, &sg, pi), base_line, &sg, pi, &mut out);
        }
    }
    out.finish()
}
