//! C06 / C12 / C17: HandRange formatting, re-parsing and splitting.
use crate::proj::*;
use crate::{Args, Out};
use espada::hand_range::{HandRange, RankPair};
use std::collections::HashMap;

type Items = Vec<((usize, usize), f32)>;

struct Case {
    items: Items,          // insertion order matters for `via`
    via: &'static str,     // collect | parse | insert
    ops: String,           // JSON of the history (TLC-generated cases) or "[]"
    text_in: Option<String>, // for via = parse: the text the range is built from
    reparse: bool,
}

/// a text sink with room for a few bytes only
struct Limited(usize);
impl std::fmt::Write for Limited {
    fn write_str(&mut self, s: &str) -> std::fmt::Result {
        if s.len() > self.0 {
            self.0 = 0;
            Err(std::fmt::Error)
        } else {
            self.0 -= s.len();
            Ok(())
        }
    }
}
const SUIT_CH: [char; 4] = ['s', 'h', 'd', 'c'];

fn rp_json(rp: &RankPair, w: f32) -> String {
    let (t, h, k) = match rp {
        RankPair::Pocket(x) => ("P", rank_id(x), rank_id(x)),
        RankPair::Suited(h, k) => ("S", rank_id(h), rank_id(k)),
        RankPair::Ofsuit(h, k) => ("O", rank_id(h), rank_id(k)),
    };
    format!("[\"{}\",{},{},{}]", t, h, k, wbits(w.to_bits()))
}

fn build(c: &Case) -> Option<HandRange> {
    let items = c.items.clone();
    let via = c.via;
    let text = c.text_in.clone();
    guarded(move || match via {
        "parse" => text.unwrap().parse::<HandRange>().unwrap(),
        "insert" => {
            // every combo first with a scratch weight, then overwritten with the final one, through FromIterator
            let mut v: Vec<_> = items.iter().map(|((a, b), _)| (pair(*a, *b), 0.75f32)).collect();
            v.extend(items.iter().map(|((a, b), w)| (pair(*b, *a), *w)));
            v.into_iter().collect::<HandRange>()
        }
        v if v.starts_with("repeat") => {
            // the same items fed k times over through FromIterator: the backing map has grown to another capacity
            let k: usize = v[6..].parse().unwrap();
            let mut all = vec![];
            for _ in 0..k {
                all.extend(items.iter().map(|((a, b), w)| (pair(*a, *b), *w)));
            }
            all.into_iter().collect::<HandRange>()
        }
        "cards" => {
            // every combo written as a card-pair token, cards in either order (text from the harness' own tables), parsed
            let parts: Vec<String> = items
                .iter()
                .map(|((a, b), w)| {
                    let (x, y) = if (a * 5 + b) % 3 == 0 { (*a, *b) } else { (*b, *a) };
                    let t = format!("{}{}{}{}", RANK_CH[x / 4], SUIT_CH[x % 4], RANK_CH[y / 4], SUIT_CH[y % 4]);
                    if *w == 1.0 { t } else { format!("{}:{}", t, w) }
                })
                .collect();
            parts.join(",").parse::<HandRange>().unwrap()
        }
        // CardPair::new is given the two cards in either order
        _ => items.iter().map(|((a, b), w)| (if (a * 3 + b) % 2 == 1 { pair(*b, *a) } else { pair(*a, *b) }, *w)).collect::<HandRange>(),
    })
}

/// everything the trace needs about one range, as the tail of a JSON object (without same_as)
fn observe(c: &Case) -> (String, String) {
    let r = match build(c) {
        Some(r) => r,
        None => return ("[]".into(), "\"range\":[],\"fmtres\":\"panic\",\"text\":\"\",\"toks\":[],\"reparse\":\"na\",\"reparsed\":[],\"split\":\"na\",\"rps\":[],\"orph\":[]".into()),
    };
    let rj = range_json(&r);
    // now and then the range is first formatted into a sink that fails after a few bytes: what a later to_string() returns
    // must not depend on it
    if (c.items.len() + c.ops.len()) % 4 == 1 {
        let r0 = r.clone();
        let room = 2 + c.items.len() % 9;
        let _ = guarded(move || {
            use std::fmt::Write;
            let mut sink = Limited(room);
            let _ = write!(sink, "{}", r0);
        });
    }
    let r1 = r.clone();
    let text = guarded(move || r1.to_string());
    let (fmtres, text) = match text {
        Some(t) => ("ok", t),
        None => ("panic", String::new()),
    };
    let toks: Vec<String> = if text.is_empty() {
        vec![]
    } else {
        text.split(',')
            .map(|p| {
                let (body, lit) = match p.find(':') {
                    Some(i) => (&p[..i], &p[i + 1..]),
                    None => (p, ""),
                };
                let w = if lit.is_empty() { wbits(1.0f32.to_bits()) } else { lit.parse::<f32>().map(|x| wbits(x.to_bits())).unwrap_or(-999_999_999) };
                let b: Vec<String> = body.chars().map(|ch| jstr(&ch.to_string())).collect();
                format!("{{\"body\":[{}],\"w\":{}}}", b.join(","), w)
            })
            .collect()
    };
    let t2 = text.clone();
    let back = if c.reparse { guarded(move || t2.parse::<HandRange>().ok().map(|b| range_json(&b))) } else { Some(Some("[]".to_string())) };
    let (reparse, bj) = match back {
        Some(Some(j)) => ("ok", j),
        Some(None) => ("err", "[]".into()),
        None => ("panic", "[]".into()),
    };
    let r3 = r.clone();
    let sp = guarded(move || {
        let mut rps: Vec<String> = r3.rank_pairs().iter().map(|(rp, w)| rp_json(rp, *w)).collect();
        rps.sort();
        let o = r3.orphan_card_pairs();
        (rps, map_json(o.iter()))
    });
    let (split, rps, orph) = match sp {
        Some((a, b)) => ("ok", format!("[{}]", a.join(",")), b),
        None => ("panic", "[]".into(), "[]".into()),
    };
    (
        rj.clone(),
        format!(
            "\"range\":{},\"fmtres\":\"{}\",\"text\":{},\"toks\":[{}],\"reparse\":\"{}\",\"reparsed\":{},\"split\":\"{}\",\"rps\":{},\"orph\":{}",
            rj, fmtres, jstr(&text), toks.join(","), reparse, bj, split, rps, orph
        ),
    )
}

// (7.038531e-26 = bits 0x15ae43fd is the one f32 in [0,1] whose shortest decimal text, read as f64 and then narrowed, lands on its neighbour)
const WS: [f32; 15] = [1.0, 0.5, 0.25, 0.0, 1e-45, 0.1, 0.3, 0.99999994, 0.7, 0.125, 0.333, 1.0, 0.5, 0.9, f32::from_bits(0x15ae_43fd)];

fn weight(rng: &mut Rng) -> f32 {
    if rng.chance(1, 5) {
        // a random bit pattern inside [0, 1]
        f32::from_bits(rng.below(0x3f80_0001) as u32)
    } else {
        *rng.pick(&WS)
    }
}
fn two_weights(rng: &mut Rng) -> (f32, f32) {
    // every fourth draw: two different weights that are neighbours as f32 values (1 ulp apart), the pairs a
    // tolerance-based comparison would confuse
    if rng.chance(1, 4) {
        let a = match rng.usize(4) {
            0 => 1.0f32,
            1 => 0.5,
            2 => 1e-45,
            _ => f32::from_bits(1 + rng.below(0x3f80_0000) as u32),
        };
        let b = f32::from_bits(a.to_bits() - 1);
        return if rng.chance(1, 2) { (a, b) } else { (b, a) };
    }
    loop {
        let (a, b) = (weight(rng), weight(rng));
        if a.to_bits() != b.to_bits() {
            return (a, b);
        }
    }
}

fn cell_combos(kind: usize, h: usize, k: usize) -> Vec<(usize, usize)> {
    match kind {
        0 => pocket(k),
        1 => suited(h, k),
        _ => ofsuit(h, k),
    }
}
/// the cells of a row: kind 0 = pockets (13 cells), 1 / 2 = suited / offsuit kickers under high card h
fn row_cells(kind: usize, h: usize) -> Vec<Vec<(usize, usize)>> {
    if kind == 0 {
        (0..13).map(|r| cell_combos(0, r, r)).collect()
    } else {
        ((h + 1)..13).map(|k| cell_combos(kind, h, k)).collect()
    }
}
fn row_case(cells: &[Vec<(usize, usize)>], pat: &[u8], wa: f32, wb: f32, rng: &mut Rng) -> Case {
    let mut items: Items = vec![];
    for (i, c) in cells.iter().enumerate() {
        if pat[i] != 0 {
            for cb in c {
                items.push((*cb, if pat[i] == 1 { wa } else { wb }));
            }
        }
    }
    rng.shuffle(&mut items);
    Case { items, via: "collect", ops: "[]".into(), text_in: None, reparse: true }
}

fn gen_rows(rng: &mut Rng, maxlen_exhaustive: usize, samples_long: usize, cases: &mut Vec<Case>) {
    // rows under high cards whose row is short enough: every pattern
    for kind in 1..=2 {
        for h in 0..12 {
            let cells = row_cells(kind, h);
            let l = cells.len();
            if l <= maxlen_exhaustive {
                let n = 3usize.pow(l as u32);
                for code in 0..n {
                    let mut pat = vec![0u8; l];
                    let mut x = code;
                    for p in pat.iter_mut() {
                        *p = (x % 3) as u8;
                        x /= 3;
                    }
                    let (wa, wb) = two_weights(rng);
                    cases.push(row_case(&cells, &pat, wa, wb, rng));
                }
            } else {
                for _ in 0..samples_long {
                    let pat = structured_pattern(rng, l);
                    let (wa, wb) = two_weights(rng);
                    cases.push(row_case(&cells, &pat, wa, wb, rng));
                }
            }
        }
    }
    let cells = row_cells(0, 0);
    for _ in 0..(samples_long * 4) {
        let pat = structured_pattern(rng, 13);
        let (wa, wb) = two_weights(rng);
        cases.push(row_case(&cells, &pat, wa, wb, rng));
    }
}

/// patterns that stress the boundaries: runs touching the top, the second cell, the end, adjacent runs of different weight
fn structured_pattern(rng: &mut Rng, l: usize) -> Vec<u8> {
    let mut pat = vec![0u8; l];
    match rng.usize(4) {
        0 => {
            for p in pat.iter_mut() {
                *p = rng.usize(3) as u8;
            }
        }
        1 => {
            // a few runs
            let mut i = 0;
            while i < l {
                let len = 1 + rng.usize(4);
                let v = rng.usize(3) as u8;
                for j in i..(i + len).min(l) {
                    pat[j] = v;
                }
                i += len;
            }
        }
        2 => {
            // one run from a to b, everything else absent or the other weight
            let a = rng.usize(l);
            let b = a + rng.usize(l - a);
            let bg = if rng.chance(1, 2) { 0 } else { 2 };
            for (j, p) in pat.iter_mut().enumerate() {
                *p = if j >= a && j <= b { 1 } else { bg };
            }
        }
        _ => {
            // full row with one hole / one other weight
            for p in pat.iter_mut() {
                *p = 1;
            }
            let j = rng.usize(l);
            pat[j] = if rng.chance(1, 2) { 0 } else { 2 };
            if rng.chance(1, 3) {
                let j2 = rng.usize(l);
                pat[j2] = 0;
            }
        }
    }
    pat
}

/// partial patterns inside one rank pair (absent / a / b per combo), neighbours complete or absent
fn gen_partial(rng: &mut Rng, pairs: usize, off_random: usize, cases: &mut Vec<Case>) {
    for _ in 0..pairs {
        let kind = rng.usize(3);
        let (h, k) = if kind == 0 { let r = rng.usize(13); (r, r) } else { let h = rng.usize(12); (h, h + 1 + rng.usize(12 - h)) };
        let combos = cell_combos(kind, h, k);
        let n = combos.len();
        let mut pats: Vec<Vec<u8>> = vec![];
        if n <= 6 {
            for code in 0..3usize.pow(n as u32) {
                let mut x = code;
                pats.push((0..n).map(|_| { let d = (x % 3) as u8; x /= 3; d }).collect());
            }
        } else {
            // the <= 2-deviation family around "all a", plus random patterns
            let base = vec![1u8; n];
            pats.push(base.clone());
            for i in 0..n {
                for v in [0u8, 2] {
                    let mut p = base.clone();
                    p[i] = v;
                    pats.push(p.clone());
                    for j in (i + 1)..n {
                        for v2 in [0u8, 2] {
                            let mut q = p.clone();
                            q[j] = v2;
                            pats.push(q);
                        }
                    }
                }
            }
            for _ in 0..off_random {
                pats.push((0..n).map(|_| rng.usize(3) as u8).collect());
            }
        }
        let (wa, wb) = two_weights(rng);
        // neighbours in the same row: complete with weight a (so that the pair sits inside a run), or absent
        let neigh = rng.usize(3);
        let sibling = rng.chance(1, 3);
        for p in pats {
            let mut items: Items = vec![];
            for (i, cb) in combos.iter().enumerate() {
                if p[i] != 0 {
                    items.push((*cb, if p[i] == 1 { wa } else { wb }));
                }
            }
            // the sibling rank pair (same two ranks, other suitedness) complete, every third time
            if kind != 0 && sibling {
                for cb in cell_combos(3 - kind, h, k) {
                    items.push((cb, wb));
                }
            }
            if neigh > 0 {
                let cells = row_cells(kind, h);
                let me = if kind == 0 { k } else { k - h - 1 };
                for d in [-1i32, 1] {
                    let j = me as i32 + d;
                    if j >= 0 && (j as usize) < cells.len() && (neigh == 2 || d == 1) {
                        for cb in &cells[j as usize] {
                            items.push((*cb, wa));
                        }
                    }
                }
            }
            rng.shuffle(&mut items);
            cases.push(Case { items, via: "collect", ops: "[]".into(), text_in: None, reparse: true });
        }
    }
}

fn random_items(rng: &mut Rng) -> Items {
    let mut m: HashMap<(usize, usize), f32> = HashMap::new();
    for _ in 0..rng.usize(5) {
        let w = weight(rng);
        let a = rng.usize(13);
        let b = (a + rng.usize(5)).min(12);
        for r in a..=b {
            for cb in pocket(r) {
                if rng.chance(11, 12) {
                    m.insert(cb, w);
                }
            }
        }
    }
    for _ in 0..rng.usize(7) {
        let h = rng.usize(12);
        let w = weight(rng);
        let a = h + 1 + rng.usize(12 - h);
        let b = (a + rng.usize(5)).min(12);
        let so = rng.chance(1, 2);
        for k in a..=b {
            for cb in if so { suited(h, k) } else { ofsuit(h, k) } {
                if rng.chance(19, 20) {
                    m.insert(cb, w);
                }
            }
        }
    }
    for _ in 0..rng.usize(5) {
        let (a, b) = (rng.usize(52), rng.usize(52));
        if a != b {
            m.insert(norm(a, b), weight(rng));
        }
    }
    let mut v: Items = m.into_iter().collect();
    v.sort_by(|x, y| x.0.cmp(&y.0));
    v
}

pub fn record(args: &Args, mut out: Out) -> usize {
    let mut rng = Rng::new(args.num("seed", 1));
    let mut cases: Vec<Case> = vec![];
    // before anything else in this process: single rank-pair tokens written low card first ('2As', '7Ko', ...) are parsed
    // and expanded, as a user's earlier calls might have done; nothing printed or split later may depend on that
    if args.num("preamble", 1) == 1 {
        let rk = crate::proj::RANK_CH;
        let mut n = 0usize;
        for h in 0..13 {
            for k in 0..h {
                for so in ['s', 'o'] {
                    let t = format!("{}{}{}", rk[h], rk[k], so);
                    if let Some(Some(r)) = guarded(move || t.parse::<HandRange>().ok()) {
                        n += r.card_pairs().len();
                    }
                }
            }
        }
        eprintln!("preamble: reversed single tokens parsed, {} combos", n);
    }
    let fam = args.get("family").unwrap_or("all").to_string();
    let has = |f: &str| fam == "all" || fam.split(',').any(|x| x == f);
    if has("rows") {
        gen_rows(&mut rng, args.num("rows-exhaustive", 7) as usize, args.num("rows-samples", 150) as usize, &mut cases);
    }
    if has("partial") {
        gen_partial(&mut rng, args.num("partial-pairs", 10) as usize, args.num("partial-random", 60) as usize, &mut cases);
    }
    if has("random") {
        for _ in 0..args.num("random", 1500) {
            let items = random_items(&mut rng);
            // the same contents along several histories: shuffled collect, insert-and-overwrite, parse of the printed text
            let k = args.num("orders", 3) as usize;
            for j in 0..k {
                let mut it = items.clone();
                rng.shuffle(&mut it);
                cases.push(Case { items: it, via: if j % 3 == 2 { "insert" } else { "collect" }, ops: "[]".into(), text_in: None, reparse: true });
            }
            // and once more from a text that lists every combo as a card pair, cards in either order
            if items.iter().all(|(_, w)| w.to_bits() & 0x8000_0000 == 0) {
                let mut it = items.clone();
                rng.shuffle(&mut it);
                cases.push(Case { items: it, via: "cards", ops: "[]".into(), text_in: None, reparse: true });
            }
        }
    }
    if has("tiny") {
        // ranges of two or three single combos that are close relatives (same two ranks, suits varied), each built in both
        // insertion orders and through maps of five different capacities: equal contents, identical text
        const REP: [&str; 5] = ["repeat1", "repeat2", "repeat8", "repeat32", "repeat128"];
        for t in 0..args.num("tiny", 120) {
            let q = rng.distinct(2, 13);
            let (h, k) = (q[0].min(q[1]), q[0].max(q[1]));
            let n = 2 + (t % 2) as usize;
            let mut items: Items = vec![];
            let hs = rng.usize(4);
            while items.len() < n {
                // same high card (and its suit) for most, kicker suits varied; now and then another high suit
                let a = 4 * h + if rng.chance(3, 4) { hs } else { rng.usize(4) };
                let b = 4 * k + rng.usize(4);
                if !items.iter().any(|(c, _)| *c == (a, b)) {
                    items.push(((a, b), if rng.chance(1, 2) { 1.0 } else { weight(&mut rng) }));
                }
            }
            for (j, rep) in REP.iter().enumerate() {
                let mut it = items.clone();
                if j % 2 == 1 {
                    it.reverse();
                }
                cases.push(Case { items: it, via: rep, ops: "[]".into(), text_in: None, reparse: true });
            }
        }
    }
    if has("hist") {
        if let Some(path) = args.get("histories") {
            // TLC-generated histories: [{"b":[chars],"w":bits}, ...]; executed by parsing the joined tokens and by collect()
            let text = std::fs::read_to_string(path).unwrap();
            let stride = args.num("hist-stride", 1) as usize;
            for (li, line) in text.lines().enumerate() {
                let v: serde_json::Value = serde_json::from_str(line).unwrap();
                if v.as_array().unwrap().len() >= 3 && li % stride != 0 {
                    continue;
                }
                let ops = v.as_array().unwrap();
                let mut parts = vec![];
                let mut items: Items = vec![];
                for op in ops {
                    let body: String = op["b"].as_array().unwrap().iter().map(|c| c.as_str().unwrap()).collect();
                    let w = f32::from_bits(op["w"].as_u64().unwrap() as u32);
                    parts.push(if w == 1.0 { body.clone() } else { format!("{}:{}", body, w) });
                    // the harness' own expansion of the token is not needed: collect() is fed from the parsed token
                    let tok = format!("{}:{}", body, w);
                    if let Some(Some(v)) = guarded(move || tok.parse::<espada::hand_range::HandRangeToken>().ok().map(|t| t.into_iter().collect::<Vec<_>>())) {
                        for (cp, ww) in v {
                            items.push((pair_ids(&cp), ww));
                        }
                    }
                }
                let opsj = line.to_string();
                cases.push(Case { items: vec![], via: "parse", ops: opsj.clone(), text_in: Some(parts.join(",")), reparse: true });
                cases.push(Case { items, via: "collect", ops: opsj, text_in: None, reparse: true });
            }
        }
    }
    if has("big") {
        // the full range with a different weight for every combo, and with one odd combo in every rank pair:
        // nothing is a complete rank pair, the text has the maximum number of tokens
        let all: Vec<(usize, usize)> = (0..52).flat_map(|a| ((a + 1)..52).map(move |b| (a, b))).collect();
        let distinct: Items = all.iter().enumerate().map(|(i, c)| (*c, (i as f32 + 1.0) / 2048.0)).collect();
        cases.push(Case { items: distinct, via: "collect", ops: "[]".into(), text_in: None, reparse: true });
        let mut odd: Items = vec![];
        for r in 0..13 {
            for (i, c) in pocket(r).into_iter().enumerate() {
                odd.push((c, if i == 3 { 0.25 } else { 0.5 }));
            }
            for k in (r + 1)..13 {
                for (i, c) in suited(r, k).into_iter().enumerate() {
                    odd.push((c, if i == 2 { 0.25 } else { 0.5 }));
                }
                for (i, c) in ofsuit(r, k).into_iter().enumerate() {
                    odd.push((c, if i == 7 { 0.25 } else { 0.5 }));
                }
            }
        }
        cases.push(Case { items: odd, via: "collect", ops: "[]".into(), text_in: None, reparse: true });
        // ranges whose number of combos sits around a multiple of 256, made of complete rank pairs plus a few extras
        for target in [252usize, 255, 256, 257, 259, 260, 511, 512, 513, 515, 768, 1024, 1027, 1280, 1283, 1326] {
            let mut rps: Vec<(usize, usize, usize)> = vec![];
            for r in 0..13 {
                rps.push((0, r, r));
                for k in (r + 1)..13 {
                    rps.push((1, r, k));
                    rps.push((2, r, k));
                }
            }
            rng.shuffle(&mut rps);
            let mut items: Items = vec![];
            let w = weight(&mut rng);
            let mut rest: Vec<(usize, usize)> = vec![];
            for (kind, h, k) in rps {
                let cs = cell_combos(kind, h, k);
                if items.len() + cs.len() <= target {
                    for c in cs {
                        items.push((c, w));
                    }
                } else {
                    rest.extend(cs);
                }
            }
            let mut i = 0;
            while items.len() < target && i < rest.len() {
                items.push((rest[i], 0.125));
                i += 2; // every other combo of the remaining rank pairs: leftovers, never a complete pair
            }
            rng.shuffle(&mut items);
            cases.push(Case { items, via: "collect", ops: "[]".into(), text_in: None, reparse: true });
        }
    }
    if has("negzero") {
        // weight -0.0 (numerically inside [0,1]): dedicated, fixed inputs (see known_findings.json)
        let nz = -0.0f32;
        cases.push(Case { items: pocket(0).into_iter().map(|c| (c, nz)).collect(), via: "collect", ops: "[]".into(), text_in: None, reparse: true });
        cases.push(Case { items: vec![((0, 5), nz)], via: "collect", ops: "[]".into(), text_in: None, reparse: true });
        cases.push(Case { items: suited(0, 1).into_iter().map(|c| (c, nz)).chain(suited(0, 2).into_iter().map(|c| (c, 0.5f32))).collect(), via: "collect", ops: "[]".into(), text_in: None, reparse: true });
    }
    if args.num("reparse", 1) == 0 {
        for c in cases.iter_mut() {
            c.reparse = false;
        }
    }
    // observe in parallel, emit in order
    let threads = args.num("threads", 16) as usize;
    let cases = std::sync::Arc::new(cases);
    let chunk = (cases.len() + threads - 1) / threads.max(1);
    let mut hs = vec![];
    for t in 0..threads {
        let cases = cases.clone();
        hs.push(std::thread::spawn(move || {
            let lo = (t * chunk).min(cases.len());
            let hi = ((t + 1) * chunk).min(cases.len());
            cases[lo..hi].iter().map(|c| (observe(c), c.via, c.ops.clone())).collect::<Vec<_>>()
        }));
    }
    let mut first: HashMap<String, usize> = HashMap::new();
    for h in hs {
        for ((key, body), via, ops) in h.join().unwrap() {
            let line = out.n + 1;
            let same = *first.entry(key).or_insert(line);
            out.line(&format!("{{\"op\":\"fmt\",\"via\":\"{}\",\"same_as\":{},\"ops\":{},{}}}", via, same, ops, body));
        }
    }
    out.finish()
}
