//! C05 / C09 / C10 (and the token half of C06): the text parsers.
use crate::flop::{Cfg, Entry};
use crate::proj::*;
use crate::{Args, Out};
use espada::card::{Card, Rank, Suit};
use espada::hand_range::{CardPair, HandRange, HandRangeToken};

fn f32_bits_of_literal(lit: &str) -> i64 {
    // the expected weight: Rust's own f32 parser on the literal (part of the trusted base), 1.0 when there is none
    if lit.is_empty() {
        return wbits(1.0f32.to_bits());
    }
    wbits(lit[1..].parse::<f32>().expect("literal").to_bits())
}

fn chars1(s: &str) -> String {
    let v: Vec<String> = s.chars().map(|c| jstr(&c.to_string())).collect();
    format!("[{}]", v.join(","))
}

fn exp_json(v: &[(CardPair, f32)]) -> String {
    let t: Vec<(usize, usize, u32)> = v.iter().map(|(c, w)| { let (a, b) = pair_ids(c); (a, b, w.to_bits()) }).collect();
    triples_json(&t)
}

/// one well-formed token body with one weight literal
fn tok_event(body: &str, lit: &str, out: &mut Out) {
    let text = format!("{}{}", body, lit);
    let t1 = text.clone();
    let tok = guarded(move || t1.parse::<HandRangeToken>().ok().map(|t| t.into_iter().collect::<Vec<_>>()));
    let (tres, exp) = match &tok {
        Some(Some(v)) => ("ok", exp_json(v)),
        Some(None) => ("err", "[]".to_string()),
        None => ("panic", "[]".to_string()),
    };
    let t2 = text.clone();
    let rng = guarded(move || t2.parse::<HandRange>().ok().map(|r| range_json(&r)));
    let (rres, rj) = match rng {
        Some(Some(j)) => ("ok", j),
        Some(None) => ("err", "[]".to_string()),
        None => ("panic", "[]".to_string()),
    };
    // C06, token half: the text of the token parses back to an equal token
    let t3 = text.clone();
    let rt = guarded(move || match t3.parse::<HandRangeToken>() {
        Ok(t) => match t.to_string().parse::<HandRangeToken>() {
            Ok(u) => (u == t) as i32,
            Err(_) => -1,
        },
        Err(_) => -3,
    })
    .unwrap_or(-2);
    out.line(&format!(
        "{{\"op\":\"tok\",\"body\":{},\"lit\":{},\"w\":{},\"tres\":\"{}\",\"exp\":{},\"rres\":\"{}\",\"rng\":{},\"rt\":{}}}",
        chars1(body), chars1(lit), f32_bits_of_literal(lit), tres, exp, rres, rj, rt
    ));
}

const LITS: [&str; 9] = ["", ":0", ":1", ":0.5", ":0.25", ":1.0", ":0.333", ":0.1", ":0.99999994"];

/// weight literals that are hard to convert: the exact decimal expansion of the point half-way between two neighbouring
/// f32 values, and that expansion nudged upwards by one more digit (so that it must round the other way); literals
/// with 20, 40 and 64 digits
pub fn hard_literals() -> Vec<String> {
    let mut v = vec![];
    for bits in [0x3f00_0000u32, 0x3f00_0001, 0x3e80_0000, 0x3dcc_cccd, 0x3f7f_fffe, 0x15ae_43fd, 0x0000_0001, 0x3eaa_aaab, 0x3f33_3333] {
        let a = f32::from_bits(bits) as f64;
        let b = f32::from_bits(bits + 1) as f64;
        let mid = (a + b) / 2.0; // exact in f64
        let text = format!("{:.80}", mid);
        let text = text.trim_end_matches('0').to_string();
        if text.len() > 3 && text.len() < 70 {
            v.push(format!(":{}", text));
            v.push(format!(":{}1", text));
            // just below: drop the last digit (the expansion ends in 5)
            v.push(format!(":{}49", &text[..text.len() - 1]));
        }
    }
    v.push(format!(":0.{}", "9".repeat(20)));
    v.push(format!(":0.{}", "9".repeat(39)));
    v.push(format!(":0.{}", "9".repeat(64)));
    v.push(format!(":0.5{}", "0".repeat(45)));
    v.push(format!(":0.{}1", "0".repeat(50)));
    v.push(format!(":1.{}", "0".repeat(50)));
    v.push(format!(":0.3{}", "3".repeat(40)));
    v
}

pub fn record_c05(args: &Args, mut out: Out) -> usize {
    let mut rng = Rng::new(args.num("seed", 1));
    let text = std::fs::read_to_string(args.get("tokens").expect("--tokens (TLC export)")).unwrap();
    let bodies: Vec<String> = text.lines().map(|l| serde_json::from_str::<Vec<String>>(l).unwrap().concat()).collect();
    let all_lits = args.num("all-lits", 0) == 1;
    for b in &bodies {
        if all_lits {
            for l in LITS {
                tok_event(b, l, &mut out);
            }
        } else {
            tok_event(b, "", &mut out);
            tok_event(b, LITS[1 + rng.usize(LITS.len() - 1)], &mut out);
        }
    }
    // hard weight literals on a few bodies of every kind
    for b in ["AA", "QQ+", "99-33", "AKs", "93o", "A9s+", "K3o+", "AKs-A9s", "K9o-K3o", "AsKs", "2c3d"] {
        for l in hard_literals() {
            tok_event(b, &l, &mut out);
        }
    }
    // the same body with and without a weight, in both orders, back to back
    for b in ["AA", "QQ+", "AKs-A9s", "K3o+", "AsKs", "72o"] {
        for (x, y) in [(":0.25", ""), ("", ":0.5"), (":0.12", ":0.99"), (":0.19", ":0.92"), (":1", ":0")] {
            tok_event(b, x, &mut out);
            tok_event(b, y, &mut out);
        }
    }
    if args.num("ctok", 0) == 1 {
        record_ctok(args, &mut out);
    }
    // token lists with overlaps and random spaces; later tokens overwrite
    let nlists = args.num("lists", 2000) as usize;
    let mut lists: Vec<Vec<(String, &str)>> = vec![
        vec![],
        // the two 12-token lists of the repository's tests, as token/weight pairs
        ["AA", "KK", "QQ", "JJ", "TT", "99", "88-66", "AKs", "AQs-A9s", "KQs", "AKo", "AQo"].iter().map(|t| (t.to_string(), "")).collect(),
    ];
    // a prefix that covers all 1326 combos, followed by tokens that re-weight parts of it (the later token must still win)
    {
        let rk = crate::proj::RANK_CH;
        let mut cover: Vec<(String, &str)> = vec![("22+".to_string(), ":0.5")];
        for h in 0..12 {
            cover.push((format!("{}2s+", rk[h]), ":0.25"));
            cover.push((format!("{}2o+", rk[h]), ""));
        }
        for tail in [vec![("AA", ":0.1")], vec![("AsKs", ":0"), ("72o", ":0.333"), ("T9s-T6s", ":0.99999994")], vec![("22+", ""), ("AhAd", ":0.25")]] {
            let mut l = cover.clone();
            l.extend(tail.into_iter().map(|(b, w)| (b.to_string(), w)));
            lists.push(l);
        }
        // and the cover assembled in another order (pockets last)
        let mut l: Vec<(String, &str)> = cover[1..].to_vec();
        l.push(cover[0].clone());
        l.push(("KK".to_string(), ":0.125"));
        lists.push(l);
    }
    // more tokens than there are combos: all 1,326 combos as card pairs with one weight, followed by tokens that re-weight some of them
    {
        let suit_ch = ['s', 'h', 'd', 'c'];
        let rk = crate::proj::RANK_CH;
        let mut l: Vec<(String, &str)> = vec![];
        for a in 0..52usize {
            for b in (a + 1)..52 {
                let (x, y) = if (a + b) % 3 == 0 { (b, a) } else { (a, b) };
                l.push((format!("{}{}{}{}", rk[x / 4], suit_ch[x % 4], rk[y / 4], suit_ch[y % 4]), ":0.5"));
            }
        }
        let mut l2 = l.clone();
        l.extend([("AA".to_string(), ""), ("72o".to_string(), ":0.25"), ("T9s-T6s".to_string(), ":0.333"), ("AsKs".to_string(), ":0")]);
        lists.push(l);
        // and the 1,326 ordered the other way round, each written twice (2,652 tokens), the second time with another weight
        l2.reverse();
        let again: Vec<(String, &str)> = l2.iter().map(|(b, _)| (b.clone(), ":0.1")).collect();
        l2.extend(again);
        l2.push(("22+".to_string(), ":1"));
        lists.push(l2);
    }
    // sandwiches: a token repeated verbatim (or with another weight) around a token that overlaps it; the last one wins.
    // These lists are written without random spaces, so that the repeated token is the same text
    let mut plain: Vec<usize> = vec![];
    for i in 0..args.num("sandwiches", 150) as usize {
        let t = rng.pick(&bodies).clone();
        let u = if i % 3 == 0 {
            t.clone()
        } else {
            let first = t.chars().next().unwrap();
            let cands: Vec<&String> = bodies.iter().filter(|x| x.starts_with(first) && x.len() <= t.len() + 1).collect();
            (*rng.pick(&cands)).clone()
        };
        let lt = *rng.pick(&LITS);
        let mut lu = *rng.pick(&LITS);
        while f32_bits_of_literal(lu) == f32_bits_of_literal(lt) {
            lu = *rng.pick(&LITS);
        }
        let mut l3 = *rng.pick(&LITS);
        while f32_bits_of_literal(l3) == f32_bits_of_literal(lt) || f32_bits_of_literal(l3) == f32_bits_of_literal(lu) {
            l3 = *rng.pick(&LITS);
        }
        let (tt, uu, t3) = ((t.clone(), lt), (u.clone(), lu), (t.clone(), l3));
        let shapes: Vec<Vec<(String, &str)>> = vec![
            vec![tt.clone(), uu.clone(), tt.clone()],
            vec![tt.clone(), uu.clone(), tt.clone(), uu.clone()],
            vec![tt.clone(), uu.clone(), t3.clone(), uu.clone(), tt.clone()],
            vec![uu.clone(), tt.clone(), tt.clone(), uu.clone()],
        ];
        let l = shapes[i % 4].clone();
        plain.push(lists.len());
        lists.push(l.clone());
        lists.push(l);
    }
    for _ in 0..nlists {
        let k = 1 + rng.usize(12);
        let mut l = vec![];
        // a few "themes" so that tokens overlap: same high card, neighbouring pockets
        let theme = rng.usize(13);
        for _ in 0..k {
            let b = if rng.chance(1, 2) {
                let cands: Vec<&String> = bodies.iter().filter(|x| x.starts_with(crate::proj::RANK_CH[theme])).collect();
                (*rng.pick(&cands)).clone()
            } else {
                rng.pick(&bodies).clone()
            };
            l.push((b, *rng.pick(&LITS)));
        }
        lists.push(l);
    }
    for (li, l) in lists.into_iter().enumerate() {
        let spaces = !plain.contains(&li);
        let mut text = String::new();
        for (i, (b, lit)) in l.iter().enumerate() {
            if i > 0 {
                text.push(',');
            }
            for ch in b.chars() {
                if spaces && rng.chance(1, 10) {
                    text.push(' ');
                }
                text.push(ch);
            }
            text.push_str(lit);
            if spaces && rng.chance(1, 6) {
                text.push(' ');
            }
        }
        let t2 = text.clone();
        let r = guarded(move || t2.parse::<HandRange>().ok().map(|r| range_json(&r)));
        let (rres, rj) = match r {
            Some(Some(j)) => ("ok", j),
            Some(None) => ("err", "[]".to_string()),
            None => ("panic", "[]".to_string()),
        };
        // the other public route from a token list to a range: every token parsed on its own, the expansions collected
        let clean: Vec<String> = l.iter().map(|(b, lit)| format!("{}{}", b, lit)).collect();
        let cr = guarded(move || {
            let mut v = vec![];
            for t in &clean {
                match t.parse::<HandRangeToken>() {
                    Ok(tok) => v.extend(tok.into_iter()),
                    Err(_) => return None,
                }
            }
            Some(range_json(&v.into_iter().collect::<HandRange>()))
        });
        let (cres, cj) = match cr {
            Some(Some(j)) => ("ok", j),
            Some(None) => ("err", "[]".to_string()),
            None => ("panic", "[]".to_string()),
        };
        let toks: Vec<String> = l.iter().map(|(b, lit)| format!("{{\"body\":{},\"w\":{}}}", chars1(b), f32_bits_of_literal(lit))).collect();
        out.line(&format!("{{\"op\":\"list\",\"toks\":[{}],\"text\":{},\"rres\":\"{}\",\"rng\":{},\"cres\":\"{}\",\"crng\":{}}}", toks.join(","), jstr(&text), rres, rj, cres, cj));
    }
    out.finish()
}

// ------------------------------------------------------------------------------------------------
// C09 / C10: arbitrary strings through the six parsers, and every Ok value through its follow-up calls

fn name_of(c: char) -> String {
    match c {
        'é' => "U2".into(),
        '€' => "U3".into(),
        '😀' => "U4".into(),
        '\n' => "NL".into(),
        c if (' '..='~').contains(&c) => c.to_string(),
        c => format!("X{:x}", c as u32),
    }
}

/// run f on a thread of its own; Err(()) if it has not finished after `secs` seconds (the thread is left behind: it
/// spins until the process exits), Ok(None) if it panicked
fn watchdog<T: Send + 'static, F: FnOnce() -> T + Send + std::panic::UnwindSafe + 'static>(secs: u64, f: F) -> Result<Option<T>, ()> {
    let (tx, rx) = std::sync::mpsc::channel();
    std::thread::spawn(move || {
        let _ = tx.send(guarded(f));
    });
    rx.recv_timeout(std::time::Duration::from_secs(secs)).map_err(|_| ())
}

fn res3<T, E>(r: Option<Result<T, E>>) -> &'static str {
    match r {
        Some(Ok(_)) => "ok",
        Some(Err(_)) => "err",
        None => "panic",
    }
}

pub fn str_event(s: &str, model: bool) -> String {
    let names: Vec<String> = s.chars().map(|c| jstr(&name_of(c))).collect();
    let o = s.to_string();
    let (a, b, c, d) = (o.clone(), o.clone(), o.clone(), o.clone());
    let rank = res3(guarded(move || a.parse::<Rank>()));
    let suit = res3(guarded(move || b.parse::<Suit>()));
    let card = res3(guarded(move || c.parse::<Card>()));
    let pair = res3(guarded(move || d.parse::<CardPair>()));
    // token, then its expansion
    let e = o.clone();
    let tok = guarded(move || e.parse::<HandRangeToken>().is_ok());
    let (token, mut expand, mut texp) = match tok {
        Some(true) => ("ok", "ok", "[]".to_string()),
        Some(false) => ("err", "na", "[]".to_string()),
        None => ("panic", "na", "[]".to_string()),
    };
    if token == "ok" {
        let e = o.clone();
        match guarded(move || e.parse::<HandRangeToken>().unwrap().into_iter().collect::<Vec<_>>()) {
            Some(v) => texp = exp_json(&v),
            None => expand = "panic",
        }
        let e = o.clone();
        if guarded(move || e.parse::<HandRangeToken>().unwrap().to_string()).is_none() {
            expand = "panic";
        }
    }
    // range, then format / split / enumerate
    let f = o.clone();
    let rng = guarded(move || f.parse::<HandRange>().ok());
    let (range, mut fmt, mut split, mut enu, mut rj, mut shows) = match &rng {
        Some(Some(_)) => ("ok", "ok", "ok", "ok", "[]".to_string(), "[]".to_string()),
        Some(None) => ("err", "na", "na", "na", "[]".to_string(), "[]".to_string()),
        None => ("panic", "na", "na", "na", "[]".to_string(), "[]".to_string()),
    };
    if let Some(Some(r)) = rng {
        rj = range_json(&r);
        let r1 = r.clone();
        if guarded(move || r1.to_string()).is_none() {
            fmt = "panic";
        }
        let r2 = r.clone();
        if guarded(move || (r2.rank_pairs().len(), r2.orphan_card_pairs().len())).is_none() {
            split = "panic";
        }
        // hand the parsed range to the evaluator, beside a fixed second range, for two board positions: on a fixed
        // flop, and on a flop made of the other three suits of the rank of the range's first card (so that a value
        // that should not exist - the same card twice, a rank five times - meets the board)
        let other: HandRange = vec![(crate::proj::pair(4, 9), 0.5f32), (crate::proj::pair(0, 13), 1.0f32)].into_iter().collect();
        let first = {
            let mut v: Vec<(usize, usize)> = r.card_pairs().keys().map(pair_ids).collect();
            v.sort();
            // a combo made of one card twice (it should not exist) is the most interesting one to put on a hostile board
            v.iter().find(|(a, b)| a == b).copied().or(v.first().copied())
        };
        let mut flops = vec![[40usize, 26, 49]];
        if let Some((a, _)) = first {
            let rk = a / 4;
            let f: Vec<usize> = (0..4).map(|s| 4 * rk + s).filter(|c| *c != a).collect();
            flops.push([f[0], f[1], f[2]]);
        }
        let r3 = r.clone();
        let take = if r.card_pairs().len() > 200 { 600 } else { 12 };
        let e = watchdog(20, move || {
            let mut v = vec![];
            for f in flops {
                let board = [Some(crate::proj::card(f[0])), Some(crate::proj::card(f[1])), Some(crate::proj::card(f[2])), None, None];
                let mut ev = espada::evaluator::FlopExhaustiveEvaluator::new(&board, &vec![r3.clone(), other.clone()]);
                ev.scope(0, 1, 0, 3);
                for sd in ev.into_iter().take(take) {
                    let mut cards: Vec<usize> = sd.board().iter().map(card_id).collect();
                    for p in sd.players() {
                        let (x, y) = pair_ids(&p.hole_cards());
                        cards.push(x);
                        cards.push(y);
                    }
                    if v.len() < 24 {
                        v.push(format!("[{},{}]", list(&cards), wbits(sd.probability().to_bits())));
                    }
                }
            }
            v
        });
        match e {
            Ok(Some(v)) => shows = format!("[{}]", v.join(",")),
            Ok(None) => enu = "panic",
            Err(()) => enu = "hang",
        }
    }
    format!(
        "{{\"op\":\"str\",\"s\":[{}],\"model\":{},\"rank\":\"{}\",\"suit\":\"{}\",\"card\":\"{}\",\"pair\":\"{}\",\"token\":\"{}\",\"expand\":\"{}\",\"range\":\"{}\",\"fmt\":\"{}\",\"split\":\"{}\",\"enum\":\"{}\",\"texp\":{},\"rng\":{},\"shows\":{}}}",
        names.join(","), model as u8, rank, suit, card, pair, token, expand, range, fmt, split, enu, texp, rj, shows
    )
}

const ALPHA: [char; 22] = ['A', 'K', '9', '3', '2', 's', 'h', 'o', '+', '-', ':', '.', ',', ' ', '0', '1', '5', 'é', '€', '😀', 'x', '\n'];

fn all_strings(maxlen: usize) -> Vec<String> {
    let mut out = vec![String::new()];
    let mut layer = vec![String::new()];
    for _ in 0..maxlen {
        let mut next = Vec::with_capacity(layer.len() * ALPHA.len());
        for s in &layer {
            for c in ALPHA {
                let mut t = s.clone();
                t.push(c);
                next.push(t);
            }
        }
        out.extend(next.iter().cloned());
        layer = next;
    }
    out
}

/// shape-valid tokens over five ranks with weight suffixes, and single-character edits of them
fn shaped(rng: &mut Rng, edits: usize, sfx_len: usize) -> Vec<String> {
    let ranks = ['A', 'K', '9', '3', '2'];
    let sfx = ["", ":0", ":1", ":0.5", ":1.0", ":1.5", ":1.75", ":0.99999", ":1.00000001", ":00", ":2", ":1.", ":.5", ":1.0x", ":-0", ":0.5.5", ":1e0"];
    let mut v = vec![];
    for &a in &ranks {
        for &b in &ranks {
            for so in ["", "s", "o"] {
                for tail in ["", "+"] {
                    v.push(format!("{}{}{}{}", a, b, so, tail));
                }
                for &c in &ranks {
                    for &d in &ranks {
                        v.push(format!("{}{}{}-{}{}{}", a, b, so, c, d, so));
                    }
                }
            }
            for s1 in ['s', 'h', 'd', 'c'] {
                for s2 in ['s', 'h'] {
                    v.push(format!("{}{}{}{}", a, s1, b, s2));
                }
            }
        }
    }
    let base = v.clone();
    let mut out = vec![];
    for b in &base {
        out.push(b.clone());
        out.push(format!("{}{}", b, sfx[rng.usize(sfx.len())]));
    }
    for s in sfx {
        out.push(format!("AA{}", s));
        out.push(format!("AsKs{}", s));
        out.push(format!("AsAs{}", s));
        out.push(format!("A9s-A3s{}", s));
        out.push(format!("KK+{}", s));
    }
    // the weight grammar, systematically: every suffix ':' + up to `sfx_len` characters over a small alphabet, and a
    // list of odd literals, on representatives of each of the seven token shapes
    let reps = ["AA-KK", "99-33", "AKs-A9s", "K9o-K3o", "KK+", "22+", "A9s+", "K3o+", "32s+", "AA", "22", "AKs", "93o", "AsKs", "2c3d"];
    let odd = [":100", ":10", ":110", ":1000", ":1x0", ":1-0", ":1:0", ":1.0.0", ":10.0", ":01", ":1e1", ":1e9", ":inf", ":NaN", ":nan", ":+1", ":-1", ":1.", ":.1",
               ":1.0e1", ":0.5e3", ":1_0", ":1 0", ":0.9999999999999999999", ":1.0000000000000000000001", ":0.00000000000000000000000000000000000000000000001", ":9", ":1.9", ":0x1"];
    let sa = ['0', '1', '5', '.', ':', 'x', '-', 'e'];
    let mut sfxs: Vec<String> = odd.iter().map(|s| s.to_string()).collect();
    let mut layer = vec![String::new()];
    for _ in 0..sfx_len {
        let mut next = vec![];
        for s in &layer {
            for c in sa {
                next.push(format!("{}{}", s, c));
            }
        }
        sfxs.extend(next.iter().map(|s| format!(":{}", s)));
        layer = next;
    }
    for r in reps {
        for s in &sfxs {
            out.push(format!("{}{}", r, s));
        }
    }
    // characters that case-insensitive or Unicode-aware matching folds onto ASCII letters and digits
    let folds = ['\u{17f}', '\u{212a}', '\u{130}', '\u{131}', '\u{212b}', '\u{ff21}', '\u{ff4b}', '\u{ff13}', '\u{660}', '\u{1d7d9}', 'S', 'O', 'a', 'k'];
    for r in reps {
        let cs: Vec<char> = r.chars().collect();
        for i in 0..cs.len() {
            for f in folds {
                let mut t = cs.clone();
                t[i] = f;
                out.push(t.iter().collect::<String>());
                out.push(format!("{}:0.5", t.iter().collect::<String>()));
            }
        }
    }
    for l in hard_literals() {
        for r in ["AA", "AKs-A9s", "A9s+", "AsKs"] {
            out.push(format!("{}{}", r, l));
        }
    }
    // weights written with digits that are not ASCII (Unicode-aware `\\d` accepts them; a float parser does not)
    for r in ["AA", "KK+", "AKs-A9s", "AsKs", "93o"] {
        for w in [":0.\u{665}", ":\u{660}", ":1.\u{660}", ":\u{ff10}.5", ":0.\u{ff15}", ":0.2\u{96b}", ":\u{1d7d8}", ":0.\u{1d7dd}", ":\u{661}"] {
            out.push(format!("{}{}", r, w));
        }
    }
    // long inputs in which multi-byte characters sit across every byte offset a fixed-width cut might use
    for lead in 0..4usize {
        for (ch, reps) in [('\u{e9}', 140usize), ('\u{20ac}', 100), ('\u{1f600}', 80)] {
            let tail: String = std::iter::repeat(ch).take(reps).collect();
            out.push(format!("{}{}", "A".repeat(lead), tail));
            out.push(format!("{}{}{}", "As".repeat(lead), tail, "Ks"));
        }
    }
    // a well-formed token with up to two characters of garbage in front of it, behind it, or both (multi-byte characters
    // shift every byte offset a parser may have computed from the shape it recognised)
    {
        let g = ['\u{e9}', '\u{20ac}', '\u{1f600}', 'A', 's', ' ', ':', '1'];
        let mut junk: Vec<String> = vec![];
        for a in g {
            junk.push(a.to_string());
            for b in g {
                junk.push(format!("{}{}", a, b));
            }
        }
        for r in reps {
            for j in &junk {
                out.push(format!("{}{}", j, r));
                out.push(format!("{}{}", r, j));
                out.push(format!("{}{}:0.5", j, r));
            }
            for _ in 0..40 {
                out.push(format!("{}{}{}", rng.pick(&junk), r, rng.pick(&junk)));
            }
        }
    }
    let pool: Vec<char> = ALPHA.iter().cloned().chain(['Q', 'd', 'c', '7', 'ß', '中', '\u{17f}', '\u{212a}']).collect();
    for _ in 0..edits {
        let b: Vec<char> = base[rng.usize(base.len())].chars().chain(sfx[rng.usize(sfx.len())].chars()).collect();
        let mut t = b.clone();
        match rng.usize(3) {
            0 if !t.is_empty() => { let i = rng.usize(t.len()); t[i] = pool[rng.usize(pool.len())]; }
            1 => { let i = rng.usize(t.len() + 1); t.insert(i, pool[rng.usize(pool.len())]); }
            _ if !t.is_empty() => { let i = rng.usize(t.len()); t.remove(i); }
            _ => {}
        }
        out.push(t.into_iter().collect());
    }
    // ranges made of several such pieces
    for _ in 0..(edits / 4) {
        let k = 1 + rng.usize(5);
        let parts: Vec<String> = (0..k).map(|_| format!("{}{}", base[rng.usize(base.len())], sfx[rng.usize(sfx.len())])).collect();
        out.push(parts.join(if rng.chance(1, 3) { " , " } else { "," }));
    }
    out
}

fn random_unicode(rng: &mut Rng, n: usize, huge: bool) -> Vec<String> {
    let cps: [u32; 12] = [0x41, 0x73, 0x32, 0x2b, 0xe9, 0x20ac, 0x1f600, 0x0, 0x7f, 0x80, 0xffff, 0x10ffff];
    let mut v = vec![];
    for _ in 0..n {
        let len = rng.usize(12);
        let s: String = (0..len)
            .map(|_| {
                let cp = if rng.chance(1, 2) { cps[rng.usize(cps.len())] } else { rng.below(0x11_0000) as u32 };
                char::from_u32(cp).unwrap_or('A')
            })
            .collect();
        v.push(s);
    }
    v.push("x".repeat(100_000));
    // every combo with a weight of its own, and with one odd weight per rank pair: valid, very long range texts
    let mut all = vec![];
    let mut odd = vec![];
    let mut i = 0;
    for a in 0..52usize {
        for b in (a + 1)..52 {
            i += 1;
            all.push(format!("{}{}:{}", card(a), card(b), (i as f32) / 2048.0));
            odd.push(format!("{}{}:{}", card(a), card(b), if (a + b) % 5 == 0 { "0.25" } else { "0.5" }));
        }
    }
    v.push(all.join(","));
    v.push(odd.join(","));
    v.push("AA,".repeat(2000));
    // many pieces: list lengths around the 8-bit boundary, and beyond 2^16 / 12
    for k in [254usize, 255, 256, 257, 5500] {
        v.push(",".repeat(k));
    }
    v.push("AsKs:0.5,".repeat(300));
    if huge {
        for k in [65_534usize, 65_535, 65_536, 70_000] {
            v.push(",".repeat(k));
        }
    }
    v
}

pub fn record_c09(args: &Args, mut out: Out) -> usize {
    let mut rng = Rng::new(args.num("seed", 1));
    let maxlen = args.num("maxlen", 3) as usize;
    let mut inputs: Vec<(String, bool)> = all_strings(maxlen).into_iter().map(|s| (s, true)).collect();
    for s in shaped(&mut rng, args.num("edits", 4000) as usize, args.num("sfx-len", 3) as usize) {
        let m = s.chars().all(|c| ALPHA.contains(&c));
        inputs.push((s, m));
    }
    for s in random_unicode(&mut rng, args.num("unicode", 2000) as usize, args.num("huge", 0) == 1) {
        inputs.push((s, false));
    }
    // the repository's own test strings
    for s in ["qwe", "AKTo+", "JJ++", "As Kc", "AsKj", "88-66", "AQs-A9s", "98o-96o", "K8s+", "22-AA", "66-88", "KAs+", "2As+", "é", "A€", "€A", "AsAs:1.75,KK:1.5"] {
        inputs.push((s.to_string(), false));
    }
    let threads = args.num("threads", 16) as usize;
    // very long inputs each get a thread of their own (they would otherwise all land in the last chunk)
    let (heavy, inputs): (Vec<(String, bool)>, Vec<(String, bool)>) = inputs.into_iter().partition(|(s, _)| s.len() > 3000);
    let heavy_threads: Vec<_> = heavy.into_iter().map(|(s, m)| std::thread::spawn(move || str_event(&s, m))).collect();
    let inputs = std::sync::Arc::new(inputs);
    let chunk = (inputs.len() + threads - 1) / threads;
    let mut hs = vec![];
    for t in 0..threads {
        let inputs = inputs.clone();
        hs.push(std::thread::spawn(move || {
            let lo = (t * chunk).min(inputs.len());
            let hi = ((t + 1) * chunk).min(inputs.len());
            inputs[lo..hi].iter().map(|(s, m)| str_event(s, *m)).collect::<Vec<_>>()
        }));
    }
    for h in hs {
        for l in h.join().unwrap() {
            out.line(&l);
        }
    }
    for h in heavy_threads {
        out.line(&h.join().unwrap());
    }
    out.finish()
}

#[allow(dead_code)]
// ------------------------------------------------------------------------------------------------
// C06, token half, constructed tokens: every well-formed token of the notation built with HandRangeToken::new
// (not parsed), printed, and its text parsed back

use espada::hand_range::{HandRangeTokenKind, RankPair};

fn rank_pair(t: &str, h: usize, k: usize) -> RankPair {
    match t {
        "P" => RankPair::Pocket(RANKS[h]),
        "S" => RankPair::Suited(RANKS[h], RANKS[k]),
        _ => RankPair::Ofsuit(RANKS[h], RANKS[k]),
    }
}

fn make_token(kind: &str, t: &str, h: usize, k: usize, e: usize, c: (usize, usize), w: f32) -> HandRangeToken {
    let kd = match kind {
        "plus" => HandRangeTokenKind::BottomClosedRankPairRange(rank_pair(t, h, k)),
        "span" => HandRangeTokenKind::DoubleClosedRankPairRange(rank_pair(t, h, k), RANKS[e]),
        "single" => HandRangeTokenKind::SingleRankPair(rank_pair(t, h, k)),
        _ => HandRangeTokenKind::SingleCardPair(pair(c.0, c.1)),
    };
    HandRangeToken::new(kd, w)
}

fn ctok_event(kind: &'static str, t: &'static str, h: usize, k: usize, e: usize, c: (usize, usize), w: f32, out: &mut Out) {
    let text = guarded(move || make_token(kind, t, h, k, e, c, w).to_string());
    let orig = guarded(move || make_token(kind, t, h, k, e, c, w).into_iter().collect::<Vec<_>>());
    let (fmtres, text) = match text {
        Some(x) => ("ok", x),
        None => ("panic", String::new()),
    };
    let (body, lit) = match text.find(':') {
        Some(i) => (text[..i].to_string(), text[i..].to_string()),
        None => (text.clone(), String::new()),
    };
    let t2 = text.clone();
    let back = guarded(move || match t2.parse::<HandRangeToken>() {
        Ok(u) => {
            let eq = (u == make_token(kind, t, h, k, e, c, w)) as i32;
            Some((eq, u.into_iter().collect::<Vec<_>>()))
        }
        Err(_) => None,
    });
    let (res, eq, backj) = match back {
        Some(Some((eq, v))) => ("ok", eq, exp_json(&v)),
        Some(None) => ("err", -1, "[]".to_string()),
        None => ("panic", -2, "[]".to_string()),
    };
    let (ores, origj) = match orig {
        Some(v) => ("ok", exp_json(&v)),
        None => ("panic", "[]".to_string()),
    };
    out.line(&format!(
        "{{\"op\":\"ctok\",\"kind\":\"{}\",\"t\":\"{}\",\"h\":{},\"k\":{},\"e\":{},\"c\":[{},{}],\"w\":{},\"fmt\":\"{}\",\"body\":{},\"lit\":{},\"res\":\"{}\",\"eq\":{},\"ores\":\"{}\",\"orig\":{},\"back\":{}}}",
        kind, t, h, k, e, c.0, c.1, wbits(w.to_bits()), fmtres, chars1(&body), chars1(&lit), res, eq, ores, origj, backj
    ));
}

const CW: [f32; 11] = [1.0, 0.0, 1e-45, 0.1, 0.99999994, 0.5, 1e-10, 0.3, 1.1754944e-38, 0.33333334, f32::from_bits(0x15ae_43fd)];

pub fn record_ctok(args: &Args, out: &mut Out) {
    let mut rng = Rng::new(args.num("seed", 1) ^ 0xC70C);
    let per = args.num("ctok-weights", 2) as usize;
    let mut n = 0usize;
    let mut emit = |kind: &'static str, t: &'static str, h: usize, k: usize, e: usize, c: (usize, usize), out: &mut Out, rng: &mut Rng| {
        for j in 0..per {
            let w = if j == 0 { CW[n % CW.len()] } else { f32::from_bits(rng.below(0x3f80_0001) as u32) };
            ctok_event(kind, t, h, k, e, c, w, out);
        }
        n += 1;
    };
    for r in 0..13 {
        emit("single", "P", r, r, 0, (0, 1), out, &mut rng);
        emit("plus", "P", r, r, 0, (0, 1), out, &mut rng);
        for e in (r + 1)..13 {
            emit("span", "P", r, r, e, (0, 1), out, &mut rng);
        }
    }
    for t in ["S", "O"] {
        for h in 0..12 {
            for k in (h + 1)..13 {
                emit("single", t, h, k, 0, (0, 1), out, &mut rng);
                emit("plus", t, h, k, 0, (0, 1), out, &mut rng);
                for e in (k + 1)..13 {
                    emit("span", t, h, k, e, (0, 1), out, &mut rng);
                }
            }
        }
    }
    for a in 0..52 {
        for b in (a + 1)..52 {
            // the constructor is given the cards in either order
            let c = if (a + b) % 2 == 0 { (a, b) } else { (b, a) };
            emit("cards", "P", 0, 0, 0, c, out, &mut rng);
        }
    }
}

fn unused(_: Cfg, _: Entry) {}
