//! C01 / C07: the seven-card evaluator.  `eval-keys` records concrete hands for every abstract key,
//! random hands and comparisons; `sweep` runs the real evaluator over all C(52,7) sets against the
//! class tables TLC exported from the specification.
use crate::proj::*;
use crate::{Args, Out};
use espada::card::Card;
use espada::evaluator::MadeHand;
use std::cmp::Ordering;
use std::collections::HashMap;

fn hand(ids: &[usize]) -> [Card; 7] {
    [card(ids[0]), card(ids[1]), card(ids[2]), card(ids[3]), card(ids[4]), card(ids[5]), card(ids[6])]
}

/// key of a hand as the harness states it (TLC re-derives it from the raw ids and compares)
pub fn key_of(ids: &[usize]) -> (u8, Vec<usize>) {
    let mut cnt = [0; 4];
    for &c in ids {
        cnt[c % 4] += 1;
    }
    if let Some(u) = (0..4).find(|&u| cnt[u] >= 5) {
        let mut r: Vec<usize> = ids.iter().filter(|&&c| c % 4 == u).map(|&c| c / 4).collect();
        r.sort();
        (1, r)
    } else {
        let mut r: Vec<usize> = ids.iter().map(|&c| c / 4).collect();
        r.sort();
        (0, r)
    }
}

fn eval_event(ids: &[usize], out: &mut Out) -> i64 {
    let cards = hand(ids);
    let r = guarded(move || {
        let mh: MadeHand = cards.into();
        (mh.power_index(), format!("{:?}", mh.hand_type()))
    });
    let (fl, key) = key_of(ids);
    let (idx, ty) = match r {
        Some((i, t)) => (i as i64, t),
        None => (-2, "panic".to_string()),
    };
    out.line(&format!(
        "{{\"op\":\"eval\",\"cards\":{},\"idx\":{},\"ty\":\"{}\",\"fl\":{},\"key\":{}}}",
        list(ids), idx, ty, fl, list(&key)
    ));
    idx
}

/// the same evaluation reached through a showdown: the first five ids are the board, the last two one player's hole cards;
/// a second player holds the same two ranks in other suits (when such cards are free).  One `eval` event per player, with
/// the seven cards as the harness dealt them and the index / category read from `ShowdownPlayer::hand()`.
fn showdown_events(ids: &[usize], rng: &mut Rng, out: &mut Out) {
    use espada::evaluator::Showdown;
    let board = [card(ids[0]), card(ids[1]), card(ids[2]), card(ids[3]), card(ids[4])];
    let mut holes: Vec<(usize, usize)> = vec![(ids[5], ids[6])];
    let mut used: Vec<usize> = ids.to_vec();
    let mut twin = vec![];
    for &c in &[ids[5], ids[6]] {
        let start = rng.usize(4);
        if let Some(t) = (0..4).map(|k| 4 * (c / 4) + (start + k) % 4).find(|t| !used.contains(t)) {
            used.push(t);
            twin.push(t);
        }
    }
    if twin.len() == 2 {
        if rng.chance(1, 2) {
            holes.push((twin[0], twin[1]));
        } else {
            holes.insert(0, (twin[0], twin[1]));
        }
    }
    let hs = holes.clone();
    let r = guarded(move || {
        Showdown::new(hs.iter().map(|(a, b)| pair(*a, *b)).collect(), board, 1.0)
            .map(|sd| sd.players().iter().map(|p| (p.hand().power_index() as i64, format!("{:?}", p.hand().hand_type()))).collect::<Vec<_>>())
    });
    for (k, (a, b)) in holes.iter().enumerate() {
        let mut seven: Vec<usize> = ids[..5].to_vec();
        seven.push(*a);
        seven.push(*b);
        let (idx, ty) = match &r {
            Some(Some(v)) if k < v.len() => v[k].clone(),
            Some(_) => (-3, "none".to_string()),
            None => (-2, "panic".to_string()),
        };
        let (fl, key) = key_of(&seven);
        out.line(&format!(
            "{{\"op\":\"eval\",\"cards\":{},\"idx\":{},\"ty\":\"{}\",\"fl\":{},\"key\":{},\"route\":\"showdown\",\"seat\":{},\"seats\":{}}}",
            list(&seven), idx, ty, fl, list(&key), k + 1, holes.len()
        ));
    }
}

fn sgn(o: Ordering) -> i32 {
    match o {
        Ordering::Less => -1,
        Ordering::Equal => 0,
        Ordering::Greater => 1,
    }
}

fn cmp_event(a: &[usize], b: &[usize], out: &mut Out) {
    let (ca, cb) = (hand(a), hand(b));
    let r = guarded(move || {
        let (x, y): (MadeHand, MadeHand) = (ca.into(), cb.into());
        (sgn(x.cmp(&y)), x.partial_cmp(&y).map(sgn).unwrap_or(-3), x < y, x <= y, x > y, x == y, x != y)
    });
    match r {
        Some((c, pc, lt, le, gt, eq, ne)) => out.line(&format!(
            "{{\"op\":\"cmp\",\"a\":{},\"b\":{},\"cmp\":{},\"pcmp\":{},\"lt\":{},\"le\":{},\"gt\":{},\"eq\":{},\"ne\":{}}}",
            list(a), list(b), c, pc, lt as u8, le as u8, gt as u8, eq as u8, ne as u8
        )),
        None => out.line(&format!(
            "{{\"op\":\"cmp\",\"a\":{},\"b\":{},\"cmp\":-2,\"pcmp\":-2,\"lt\":-2,\"le\":-2,\"gt\":-2,\"eq\":-2,\"ne\":-2}}",
            list(a), list(b)
        )),
    }
}

/// all non-decreasing 7-tuples of ranks with at most four of a rank
fn rank_keys() -> Vec<[usize; 7]> {
    fn rec(k: &mut Vec<usize>, out: &mut Vec<[usize; 7]>) {
        if k.len() == 7 {
            out.push([k[0], k[1], k[2], k[3], k[4], k[5], k[6]]);
            return;
        }
        let lo = k.last().copied().unwrap_or(0);
        for r in lo..13 {
            if k.len() >= 4 && k[k.len() - 4] == r {
                continue;
            }
            k.push(r);
            rec(k, out);
            k.pop();
        }
    }
    let mut out = vec![];
    rec(&mut vec![], &mut out);
    out
}

/// suits for a rank multiset so that no suit holds five cards; `near` asks for exactly four of one suit
fn suit_up(key: &[usize; 7], rng: &mut Rng, near: bool) -> Option<Vec<usize>> {
    for _ in 0..400 {
        let mut ids = vec![];
        let mut i = 0;
        let mut cnt = [0usize; 4];
        let fav = rng.usize(4);
        while i < 7 {
            let r = key[i];
            let mut c = 1;
            while i + c < 7 && key[i + c] == r {
                c += 1;
            }
            let mut suits = rng.distinct(c, 4);
            if near && cnt[fav] < 4 && !suits.contains(&fav) && rng.chance(9, 10) {
                suits[0] = fav;
            }
            for s in suits {
                cnt[s] += 1;
                ids.push(4 * r + s);
            }
            i += c;
        }
        let mx = *cnt.iter().max().unwrap();
        if mx >= 5 || (near && mx != 4) {
            continue;
        }
        return Some(ids);
    }
    None
}

pub fn record_keys(args: &Args, mut out: Out) -> usize {
    let mut rng = Rng::new(args.num("seed", 1));
    let variants = args.num("variants", 2) as usize;
    let nrandom = args.num("random", 20000) as usize;
    let ncmp = args.num("cmp", 20000) as usize;
    let mut pool: Vec<Vec<usize>> = vec![];
    // every rank key
    for key in rank_keys() {
        for v in 0..variants {
            let ids = suit_up(&key, &mut rng, v % 2 == 1).or_else(|| suit_up(&key, &mut rng, false));
            if let Some(mut ids) = ids {
                rng.shuffle(&mut ids);
                eval_event(&ids, &mut out);
                if rng.chance(1, 8) {
                    showdown_events(&ids, &mut rng, &mut out);
                }
                if rng.chance(1, 8) {
                    pool.push(ids);
                }
            }
        }
    }
    // every flush key: 5, 6 or 7 distinct ranks of one suit, the rest off-suit
    for n in 5..=7usize {
        let mut comb: Vec<usize> = (0..n).collect();
        loop {
            for v in 0..(2 * variants) {
                let u = (v + comb[0] + comb[n - 1]) % 4;
                let mut ids: Vec<usize> = comb.iter().map(|r| 4 * r + u).collect();
                let mut rest = vec![];
                while rest.len() < 7 - n {
                    let c = rng.usize(52);
                    if c % 4 != u && !rest.contains(&c) {
                        rest.push(c);
                    }
                }
                match v % 4 {
                    0 => ids.extend(rest),                         // flush cards first: scan exits early
                    1 => { rest.extend(ids); ids = rest; }         // off-suit first: scan exits at the last card
                    _ => { ids.extend(rest); rng.shuffle(&mut ids); }
                }
                eval_event(&ids, &mut out);
                if v % 4 < 2 || rng.chance(1, 4) {
                    showdown_events(&ids, &mut rng, &mut out);
                }
                if rng.chance(1, 4) {
                    pool.push(ids);
                }
            }
            // next combination
            let mut i = n;
            while i > 0 && comb[i - 1] == 13 - n + (i - 1) {
                i -= 1;
            }
            if i == 0 {
                break;
            }
            comb[i - 1] += 1;
            for j in i..n {
                comb[j] = comb[j - 1] + 1;
            }
        }
    }
    // uniformly random hands in random order
    for _ in 0..nrandom {
        let ids = rng.distinct(7, 52);
        eval_event(&ids, &mut out);
        if rng.chance(1, 8) {
            showdown_events(&ids, &mut rng, &mut out);
        }
        if rng.chance(1, 4) {
            pool.push(ids);
        }
    }
    // neighbours back to back: a hand, then the same hand with one card exchanged, evaluated consecutively on this thread
    // (every replacement card for a few positions; the same-suit card 8 ranks away and the same rank in another suit for all)
    for _ in 0..(args.num("neighbours", 150) as usize) {
        let base = rng.distinct(7, 52);
        for j in 0..7 {
            let mut cands: Vec<usize> = vec![(base[j] + 32) % 64, (base[j] + 20) % 52, 4 * (base[j] / 4) + (base[j] + 1) % 4];
            if j < 2 {
                cands.extend(0..52);
            }
            for c in cands {
                if c < 52 && !base.contains(&c) {
                    let mut h = base.clone();
                    h[j] = c;
                    eval_event(&base, &mut out);
                    eval_event(&h, &mut out);
                }
            }
        }
    }
    // comparisons: random pairs, suit-relabelled copies (exact ties), one-card changes (near neighbours)
    for i in 0..ncmp {
        let a = pool[rng.usize(pool.len())].clone();
        let b = match i % 3 {
            0 => pool[rng.usize(pool.len())].clone(),
            1 => {
                let mut p = [0usize, 1, 2, 3];
                rng.shuffle(&mut p);
                let mut b: Vec<usize> = a.iter().map(|c| 4 * (c / 4) + p[c % 4]).collect();
                rng.shuffle(&mut b);
                b
            }
            _ => {
                let mut b = a.clone();
                let j = rng.usize(7);
                loop {
                    let c = rng.usize(52);
                    if !b.contains(&c) {
                        b[j] = c;
                        break;
                    }
                }
                b
            }
        };
        cmp_event(&a, &b, &mut out);
    }
    out.finish()
}

// ------------------------------------------------------------------------------------------------
// sweep: all C(52,7) = 133,784,560 sets against the TLC-exported key -> class tables

fn pack(r: &[usize]) -> u32 {
    let mut x: u32 = r.len() as u32;
    for &v in r {
        x = (x << 4) | v as u32;
    }
    x
}

pub struct KeyTables {
    // key -> (class, category 1..9), both as exported by TLC from Poker.tla
    pub rank: HashMap<u32, (u16, u8), fxhash::FxBuildHasher>,
    pub flush: HashMap<u32, (u16, u8), fxhash::FxBuildHasher>,
}

pub fn load_keys(path: &str) -> KeyTables {
    let text = std::fs::read_to_string(path).expect("keys file (TLC export) missing");
    let mut t = KeyTables { rank: HashMap::default(), flush: HashMap::default() };
    for l in text.lines() {
        let v: serde_json::Value = serde_json::from_str(l).unwrap();
        let r: Vec<usize> = v["r"].as_array().unwrap().iter().map(|x| x.as_u64().unwrap() as usize).collect();
        let c = v["c"].as_u64().unwrap() as u16;
        let ct = v["t"].as_u64().unwrap() as u8;
        if v["k"] == "K" {
            t.rank.insert(pack(&r), (c, ct));
        } else {
            t.flush.insert(pack(&r), (c, ct));
        }
    }
    assert_eq!(t.rank.len(), 49205);
    assert_eq!(t.flush.len(), 4719);
    t
}

const CATS: [&str; 9] = ["StraightFlush", "Quads", "FullHouse", "Flush", "Straight", "Trips", "TwoPair", "Pair", "HighCard"];
struct Part {
    sets: u64,
    evals: u64,
    idx_mismatch: u64,
    ty_mismatch: u64,
    hist: [u64; 9],
    seen: Vec<bool>,
    // mismatching hands with what was OBSERVED in the sweep (a state-dependent defect may not reproduce on a second call)
    bad: Vec<(Vec<usize>, u16, String)>,
}

/// permutation number p of 0..6 applied to ids (p = 0: as enumerated; 1: reversed; else pseudo-random by mixing)
fn permute(ids: &[usize; 7], p: u64, salt: u64) -> [usize; 7] {
    let mut o = *ids;
    if p == 0 {
        return o;
    }
    if p == 1 {
        o.reverse();
        return o;
    }
    let mut x = salt.wrapping_add(p).wrapping_mul(0x9E37_79B9_7F4A_7C15);
    for i in (1..7).rev() {
        x ^= x >> 29;
        x = x.wrapping_mul(0xBF58_476D_1CE4_E5B9);
        let j = ((x >> 33) % (i as u64 + 1)) as usize;
        o.swap(i, j);
    }
    o
}

pub fn sweep(args: &Args, mut out: Out) -> usize {
    let tabs = std::sync::Arc::new(load_keys(args.get("keys").expect("--keys")));
    let orders = args.num("orders", 4);
    let seed = args.num("seed", 1);
    let threads = args.num("threads", 16) as usize;
    let maxbad = args.num("maxbad", 200) as usize;
    let focus_idx = args.get("focus").unwrap_or("idx") == "idx";
    let cards: Vec<Card> = (0..52).map(card).collect();
    let cards = std::sync::Arc::new(cards);
    // work units: the first two cards (c1 < c2)
    let mut units = vec![];
    for a in 0..52usize {
        for b in (a + 1)..52 {
            units.push((a, b));
        }
    }
    let units = std::sync::Arc::new(units);
    let next = std::sync::Arc::new(std::sync::atomic::AtomicUsize::new(0));
    let mut hs = vec![];
    for _ in 0..threads {
        let (tabs, cards, units, next) = (tabs.clone(), cards.clone(), units.clone(), next.clone());
        hs.push(std::thread::spawn(move || {
            let mut p = Part { sets: 0, evals: 0, idx_mismatch: 0, ty_mismatch: 0, hist: [0; 9], seen: vec![false; 7463], bad: vec![] };
            loop {
                let u = next.fetch_add(1, std::sync::atomic::Ordering::Relaxed);
                if u >= units.len() {
                    break;
                }
                let (c1, c2) = units[u];
                for c3 in (c2 + 1)..52 {
                    for c4 in (c3 + 1)..52 {
                        for c5 in (c4 + 1)..52 {
                            for c6 in (c5 + 1)..52 {
                                for c7 in (c6 + 1)..52 {
                                    let ids = [c1, c2, c3, c4, c5, c6, c7];
                                    let mut cnt = [0u8; 4];
                                    for c in ids {
                                        cnt[c & 3] += 1;
                                    }
                                    let fs = (0..4).find(|&s| cnt[s] >= 5);
                                    let (expect, ecat) = match fs {
                                        Some(s) => {
                                            let mut x: u32 = cnt[s] as u32;
                                            for c in ids {
                                                if c & 3 == s {
                                                    x = (x << 4) | (c >> 2) as u32;
                                                }
                                            }
                                            tabs.flush[&x]
                                        }
                                        None => {
                                            let mut x: u32 = 7;
                                            for c in ids {
                                                x = (x << 4) | (c >> 2) as u32;
                                            }
                                            tabs.rank[&x]
                                        }
                                    };
                                    p.sets += 1;
                                    p.hist[ecat as usize - 1] += 1;
                                    p.seen[expect as usize] = true;
                                    let salt = seed ^ ((c1 * 52 + c2) as u64) << 32 ^ ((c3 * 52 + c4) as u64) << 20 ^ ((c5 * 2704 + c6 * 52 + c7) as u64);
                                    for o in 0..orders {
                                        let q = permute(&ids, o, salt);
                                        let h: MadeHand = [cards[q[0]], cards[q[1]], cards[q[2]], cards[q[3]], cards[q[4]], cards[q[5]], cards[q[6]]].into();
                                        p.evals += 1;
                                        let mut bad = false;
                                        if h.power_index() != expect {
                                            p.idx_mismatch += 1;
                                            bad = focus_idx;
                                        }
                                        if o == 0 || !focus_idx {
                                            // Debug name of the category, compared as text (the enum is not exported)
                                            let t = h.hand_type();
                                            let name = CATS[ecat as usize - 1];
                                            if !debug_is(&t, name) {
                                                p.ty_mismatch += 1;
                                                bad = bad || !focus_idx;
                                            }
                                        }
                                        if bad && p.bad.len() < 64 {
                                            p.bad.push((q.to_vec(), h.power_index(), format!("{:?}", h.hand_type())));
                                        }
                                    }
                                }
                            }
                        }
                    }
                }
            }
            p
        }));
    }
    let mut tot = Part { sets: 0, evals: 0, idx_mismatch: 0, ty_mismatch: 0, hist: [0; 9], seen: vec![false; 7463], bad: vec![] };
    for h in hs {
        let p = h.join().expect("sweep thread");
        tot.sets += p.sets;
        tot.evals += p.evals;
        tot.idx_mismatch += p.idx_mismatch;
        tot.ty_mismatch += p.ty_mismatch;
        for i in 0..9 {
            tot.hist[i] += p.hist[i];
        }
        for i in 0..7463 {
            tot.seen[i] |= p.seen[i];
        }
        tot.bad.extend(p.bad);
    }
    tot.bad.sort();
    tot.bad.truncate(maxbad);
    // mismatching hands become ordinary eval events: the verdict on them is TLC's, not the sweep's
    let mut mm = Out::new(args.get("mismatch"));
    for (ids, idx, ty) in &tot.bad {
        let (fl, key) = key_of(ids);
        mm.line(&format!(
            "{{\"op\":\"eval\",\"cards\":{},\"idx\":{},\"ty\":\"{}\",\"fl\":{},\"key\":{},\"observed_in\":\"sweep\"}}",
            list(ids), idx, ty, fl, list(&key)
        ));
    }
    mm.finish();
    let reach = tot.seen.iter().filter(|x| **x).count();
    out.line(&format!(
        "{{\"op\":\"sweep\",\"sets\":{},\"evals\":{},\"orders\":{},\"idx_mismatch\":{},\"ty_mismatch\":{},\"spec_hist\":{},\"reachable_classes\":{}}}",
        tot.sets, tot.evals, orders, tot.idx_mismatch, tot.ty_mismatch, list(&tot.hist), reach
    ));
    out.finish()
}

fn debug_is<T: std::fmt::Debug>(t: &T, name: &str) -> bool {
    // avoid allocating in the hot loop: compare through a tiny fixed buffer writer
    use std::fmt::Write;
    struct W<'a> {
        want: &'a [u8],
        pos: usize,
        ok: bool,
    }
    impl<'a> Write for W<'a> {
        fn write_str(&mut self, s: &str) -> std::fmt::Result {
            let b = s.as_bytes();
            if self.pos + b.len() > self.want.len() || &self.want[self.pos..self.pos + b.len()] != b {
                self.ok = false;
            }
            self.pos += b.len();
            Ok(())
        }
    }
    let mut w = W { want: name.as_bytes(), pos: 0, ok: true };
    let _ = write!(w, "{:?}", t);
    w.ok && w.pos == name.len()
}
