//! C04 (scoped evaluators tile the enumeration) and C16 (the example's work splitter).
use crate::flop::*;
use crate::proj::*;
use crate::{Args, Out};

#[path = "/repo/examples/multi-thread/scope.rs"]
#[allow(dead_code)]
mod scope;

fn items_json(items: &[Vec<usize>]) -> String {
    let v: Vec<String> = items.iter().map(|i| list(i)).collect();
    format!("[{}]", v.join(","))
}

/// drain an evaluator after the given scope() calls; returns (items, number of Some among `after` extra calls) or None on panic
fn drain_scoped(cfg: &Cfg, scopes: &[(u8, u8, u8, u8)], after: usize) -> Option<(Vec<Vec<usize>>, usize)> {
    let c = cfg.clone();
    let sc = scopes.to_vec();
    guarded(move || {
        let mut ev = espada::evaluator::FlopExhaustiveEvaluator::new(&c.board(), &c.hand_ranges());
        for s in &sc {
            ev.scope(s.0, s.1, s.2, s.3);
        }
        let mut it = ev.into_iter();
        let mut items = vec![];
        let mut full = c.clone();
        full.scoped = false;
        let cap = full.max_deals();
        while let Some(sd) = it.next() {
            items.push(item(&sd));
            if items.len() > cap {
                break; // runaway iterator: the run is reported as it is, one past the possible maximum
            }
        }
        let mut revived = 0;
        for _ in 0..after {
            if it.next().is_some() {
                revived += 1;
            }
        }
        (items, revived)
    })
}

fn succ(p: (u8, u8)) -> (u8, u8) {
    if p.1 < 48 { (p.0, p.1 + 1) } else { (p.0 + 1, p.0 + 2) }
}
fn advance(mut p: (u8, u8), n: usize) -> (u8, u8) {
    for _ in 0..n {
        if p == (48, 49) {
            break;
        }
        p = succ(p);
    }
    p
}

fn full_event(cfg: &Cfg, out: &mut Out) -> Option<usize> {
    let r = drain_scoped(cfg, &[], 3);
    match r {
        Some((items, revived)) => {
            out.line(&format!("{{\"op\":\"full\",{},\"items\":{},\"after\":{}}}", cfg.json_fields(), items_json(&items), revived));
            Some(out.n)
        }
        None => {
            out.line(&format!("{{\"op\":\"full\",{},\"items\":[],\"after\":-2}}", cfg.json_fields()));
            None
        }
    }
}

fn scoped_event(cfg: &Cfg, refline: usize, scopes: &[(u8, u8, u8, u8)], out: &mut Out) {
    let sj: Vec<String> = scopes.iter().map(|s| format!("[{},{},{},{}]", s.0, s.1, s.2, s.3)).collect();
    match drain_scoped(cfg, scopes, 3) {
        Some((items, revived)) => out.line(&format!(
            "{{\"op\":\"scoped\",\"ref\":{},\"scopes\":[{}],\"items\":{},\"after\":{}}}",
            refline, sj.join(","), items_json(&items), revived
        )),
        None => out.line(&format!("{{\"op\":\"scoped\",\"ref\":{},\"scopes\":[{}],\"items\":[],\"after\":-2}}", refline, sj.join(","))),
    }
}

fn chain_event(cfg: &Cfg, refline: usize, cuts: &[(u8, u8)], out: &mut Out) {
    let mut runs = vec![];
    for (wi, w) in cuts.windows(2).enumerate() {
        // every second worker re-targets an evaluator that was first scoped to the previous worker's share (the last scope() call counts)
        let this = (w[0].0, w[0].1, w[1].0, w[1].1);
        let scopes: Vec<(u8, u8, u8, u8)> = if wi % 2 == 1 { vec![(cuts[wi - 1].0, cuts[wi - 1].1, w[0].0, w[0].1), this] } else { vec![this] };
        match drain_scoped(cfg, &scopes, 1) {
            Some((items, 0)) => runs.push(items_json(&items)),
            _ => runs.push("[[-2,-2]]".to_string()),
        }
    }
    let cj: Vec<String> = cuts.iter().map(|c| format!("[{},{}]", c.0, c.1)).collect();
    out.line(&format!("{{\"op\":\"chain\",\"ref\":{},\"cuts\":[{}],\"runs\":[{}]}}", refline, cj.join(","), runs.join(",")));
}

fn e1(a: usize, b: usize) -> Vec<Entry> {
    vec![Entry { a, b, m: 1, e: 0 }]
}

pub fn record_c04(args: &Args, mut out: Out) -> usize {
    let mut rng = Rng::new(args.num("seed", 1));
    let thorough = args.num("thorough", 0) == 1;
    // the suite's configuration: Jh 9d 3c, As4h vs Td8c
    let jh = 4 * 3 + 1;
    let d9 = 4 * 5 + 2;
    let c3 = 4 * 11 + 3;
    let suite = Cfg { flop: [jh, d9, c3], ranges: vec![e1(0, 4 * 10 + 1), e1(4 * 4 + 2, 4 * 6 + 3)], from: (0, 1), to: (48, 49), scoped: false };
    let mut cfgs = vec![suite.clone()];
    let ncfg = if thorough { 10 } else { 3 };
    for i in 0..ncfg {
        let mut c = match i % 3 {
            0 => random_cfg(&mut rng, 2, 3, 1),
            1 => random_cfg(&mut rng, 1, 6, 1),
            _ => random_cfg(&mut rng, 3, 2, 1),
        };
        c.scoped = false;
        c.from = (0, 1);
        c.to = (48, 49);
        cfgs.push(c);
    }
    // a player without hands: the unscoped run is empty, so every scoped run must be empty too
    let mut empty = suite.clone();
    empty.ranges[1] = vec![];
    cfgs.push(empty);
    for (ci, cfg) in cfgs.iter().enumerate() {
        let refline = match full_event(cfg, &mut out) {
            Some(l) => l,
            None => continue,
        };
        // the three scopes snapshotted by the repository's tests
        if ci == 0 {
            for s in [(0u8, 1u8, 2u8, 25u8), (10, 43, 14, 18), (32, 48, 47, 49)] {
                if s.3 <= 48 || (s.2, s.3) == (48, 49) {
                    scoped_event(cfg, refline, &[s], &mut out);
                }
            }
        }
        // every start position, with an end a short random distance away (or the terminal)
        let mut from = (0u8, 1u8);
        while from != (48, 49) {
            let to = match rng.usize(8) {
                0 => (48, 49),
                1 => from,
                2 => (from.0 + 1, from.0 + 2),                         // exactly the next turn rollover
                3 => if from.0 < 47 { (from.0 + 1, 48) } else { (48, 49) },
                _ => advance(from, rng.usize(60)),
            };
            let to = if to.0 >= 48 { (48, 49) } else { to };
            // a long window is expensive only for late starts, where it is short anyway
            let to = if to == (48, 49) && from.0 < 40 && !rng.chance(1, 10) { advance(from, 48) } else { to };
            scoped_event(cfg, refline, &[(from.0, from.1, to.0, to.1)], &mut out);
            from = succ(from);
        }
        // ends adjacent to every rollover, from a start a few positions earlier
        for t in 0..48u8 {
            for to in [(t, 48), if t < 47 { (t + 1, t + 2) } else { (48, 49) }] {
                let back = rng.usize(6);
                let mut from = (t, (t + 1).max(48 - back as u8).min(48));
                if from.0 >= from.1 {
                    from = (t, t + 1);
                }
                if from <= to {
                    scoped_event(cfg, refline, &[(from.0, from.1, to.0, to.1)], &mut out);
                }
            }
        }
        // repeated scope() calls: the last one wins
        for _ in 0..20 {
            let a = random_window(&mut rng, 40);
            let b = random_window(&mut rng, 40);
            scoped_event(cfg, refline, &[(a.0 .0, a.0 .1, a.1 .0, a.1 .1), (b.0 .0, b.0 .1, b.1 .0, b.1 .1)], &mut out);
        }
        // ... also when the last call names the whole enumeration, the same window again, or an empty window
        {
            let full = (0u8, 1u8, 48u8, 49u8);
            let w = |r: &mut Rng| { let a = random_window(r, 30); (a.0 .0, a.0 .1, a.1 .0, a.1 .1) };
            let (a, b, c) = (w(&mut rng), w(&mut rng), w(&mut rng));
            scoped_event(cfg, refline, &[a, full], &mut out);
            scoped_event(cfg, refline, &[(10, 43, 14, 18), b, full], &mut out);
            scoped_event(cfg, refline, &[full, c], &mut out);
            scoped_event(cfg, refline, &[c, c], &mut out);
            scoped_event(cfg, refline, &[a, (b.0, b.1, b.0, b.1)], &mut out);
            scoped_event(cfg, refline, &[(c.0, c.1, c.0, c.1), a], &mut out);
        }
        // chains of 2..16 cuts from (0,1) to (48,49)
        for _ in 0..(if thorough { 40 } else { 12 }) {
            let k = 1 + rng.usize(16);
            let mut cuts: Vec<(u8, u8)> = (0..k).map(|_| random_pos(&mut rng)).collect();
            if rng.chance(1, 3) {
                let d = cuts[0];
                cuts.push(d); // an empty scope in the middle
            }
            cuts.sort();
            cuts.insert(0, (0, 1));
            cuts.push((48, 49));
            chain_event(cfg, refline, &cuts, &mut out);
        }
    }
    out.finish()
}

pub fn record_c16(args: &Args, mut out: Out) -> usize {
    let max_n = args.num("max", 512) as u32;
    let mut rng = Rng::new(args.num("seed", 1));
    let mut ns: Vec<u32> = (1..=max_n).collect();
    for _ in 0..args.num("samples", 64) {
        ns.push(max_n + 1 + rng.below(1 << 20) as u32);
        ns.push((1 << 20) + rng.below((1 << 24) - (1 << 20)) as u32);
    }
    for k in [1u32, 2, 3, 16, 255] {
        ns.push(65_536 * k);
        ns.push(65_536 * k + 1);
    }
    for n in ns {
        let r = guarded(move || scope::calculate_scopes(n));
        match r {
            Some(scopes) => {
                let rle = |pts: Vec<(u8, u8)>| -> String {
                    let mut r: Vec<(u8, u8, usize)> = vec![];
                    for p in pts {
                        match r.last_mut() {
                            Some(l) if (l.0, l.1) == p => l.2 += 1,
                            _ => r.push((p.0, p.1, 1)),
                        }
                    }
                    let v: Vec<String> = r.iter().map(|x| format!("[{},{},{}]", x.0, x.1, x.2)).collect();
                    format!("[{}]", v.join(","))
                };
                let froms = rle(scopes.iter().map(|s| (s.turn_from, s.river_from)).collect());
                let tos = rle(scopes.iter().map(|s| (s.turn_to, s.river_to)).collect());
                out.line(&format!("{{\"op\":\"scopes\",\"n\":{},\"len\":{},\"froms\":{},\"tos\":{}}}", n, scopes.len(), froms, tos));
            }
            None => out.line(&format!("{{\"op\":\"scopes\",\"n\":{},\"len\":-2,\"froms\":[],\"tos\":[]}}", n)),
        }
    }
    // for a sample of worker counts, run the chain on the real evaluator (valid chains only: an invalid one is already reported above)
    let jh = 4 * 3 + 1;
    let cfg = Cfg { flop: [jh, 4 * 5 + 2, 4 * 11 + 3], ranges: vec![e1(0, 41), e1(18, 27)], from: (0, 1), to: (48, 49), scoped: false };
    if let Some(refline) = full_event(&cfg, &mut out) {
        for n in [1u32, 2, 3, 4, 7, 8, 15, 16, 31, 63] {
            if let Some(scopes) = guarded(move || scope::calculate_scopes(n)) {
                let mut cuts: Vec<(u8, u8)> = vec![(scopes[0].turn_from, scopes[0].river_from)];
                let mut ok = true;
                for s in &scopes {
                    let valid = |t: u8, r: u8| (t < r && r <= 48) || (t, r) == (48, 49);
                    ok &= valid(s.turn_from, s.river_from) && valid(s.turn_to, s.river_to) && (s.turn_from, s.river_from) == *cuts.last().unwrap();
                    cuts.push((s.turn_to, s.river_to));
                }
                if ok {
                    chain_event(&cfg, refline, &cuts, &mut out);
                }
            }
        }
    }
    out.finish()
}
