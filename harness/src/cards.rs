//! C13 / C14: the complete observable table of the card module and of CardPair.
use crate::proj::*;
use crate::{Args, Out};
use espada::card::{Card, Rank, RankRange, Suit, SuitRange};
use espada::hand_range::{CardPair, HandRange};
use std::cmp::Ordering;
use std::collections::hash_map::DefaultHasher;
use std::hash::{Hash, Hasher};

fn codes(s: &str) -> String {
    list(&s.bytes().map(|b| b as u32).collect::<Vec<_>>())
}
fn b2i(b: bool) -> u8 {
    b as u8
}
fn ord(o: Ordering) -> i32 {
    match o {
        Ordering::Less => -1,
        Ordering::Equal => 0,
        Ordering::Greater => 1,
    }
}

pub fn record_c13(_args: &Args, mut out: Out) -> usize {
    // cards <-> one-hot words, text, parts
    for id in 0..52usize {
        let c = card(id);
        match guarded(move || (u64::from(c), u64::from(&c))) {
            Some((w, w2)) if w == w2 => out.line(&format!(
                "{{\"op\":\"c2u\",\"id\":{},\"pop\":{},\"tz\":{}}}",
                id,
                w.count_ones(),
                if w == 0 { 64 } else { w.trailing_zeros() }
            )),
            _ => out.line(&format!("{{\"op\":\"c2u\",\"id\":{},\"pop\":-2,\"tz\":-2}}", id)),
        }
        let back = guarded(move || {
            let a = Card::from(1u64 << id);
            let b = Card::from(&(1u64 << id));
            if a == b { card_id(&a) as i32 } else { -3 }
        })
        .unwrap_or(-2);
        out.line(&format!("{{\"op\":\"u2c\",\"bit\":{},\"out\":{}}}", id, back));
        let text = guarded(move || c.to_string());
        out.line(&format!(
            "{{\"op\":\"ctext\",\"id\":{},\"s\":{}}}",
            id,
            text.map(|t| codes(&t)).unwrap_or("[-2]".to_string())
        ));
        // the same text asked for with a width, an alignment or via Debug-free helpers: padding (spaces) aside, it is the card's text
        for (si, spec) in ["{:2}", "{:4}", "{:>5}", "{:<3}", "{:^6}"].iter().enumerate() {
            let t = guarded(move || match si {
                0 => format!("{:2}", c),
                1 => format!("{:4}", c),
                2 => format!("{:>5}", c),
                3 => format!("{:<3}", c),
                _ => format!("{:^6}", c),
            });
            out.line(&format!("{{\"op\":\"cpad\",\"id\":{},\"spec\":{},\"s\":{}}}", id, jstr(spec), t.map(|t| codes(&t)).unwrap_or("[-2]".to_string())));
        }
        out.line(&format!(
            "{{\"op\":\"cparts\",\"id\":{},\"rank\":{},\"suit\":{}}}",
            id,
            rank_id(c.rank()),
            suit_id(c.suit())
        ));
    }
    // every one- and two-character ASCII string as a card
    let parse_card = |s: String, out: &mut Out| {
        let s2 = s.clone();
        let r = guarded(move || s2.parse::<Card>().map(|c| card_id(&c) as i32).unwrap_or(-1)).unwrap_or(-2);
        out.line(&format!("{{\"op\":\"cparse\",\"s\":{},\"out\":{}}}", codes(&s), r));
    };
    parse_card(String::new(), &mut out);
    for a in 0u8..128 {
        parse_card((a as char).to_string(), &mut out);
        for b in 0u8..128 {
            parse_card(format!("{}{}", a as char, b as char), &mut out);
        }
    }
    // the same strings again, each right after a successful parse of some card (a result must not depend on the call before)
    {
        let mut k = 0usize;
        let mut after_card = |s: String, out: &mut Out| {
            let warm = card(k % 52).to_string();
            k += 1;
            let s2 = s.clone();
            let r = guarded(move || {
                let _ = warm.parse::<Card>();
                s2.parse::<Card>().map(|c| card_id(&c) as i32).unwrap_or(-1)
            })
            .unwrap_or(-2);
            out.line(&format!("{{\"op\":\"cparse\",\"s\":{},\"out\":{},\"after\":{}}}", codes(&s), r, (k - 1) % 52));
        };
        for a in 0u8..128 {
            for b in 0u8..128 {
                after_card(format!("{}{}", a as char, b as char), &mut out);
            }
        }
    }
    // and every two-character ASCII string right after every one of the 52 card texts (52 x 16,384 sequences): a parse whose
    // result differs from what the same string gave the first time is logged as one more cparse event, judged like the others
    {
        let suit_ch = ['s', 'h', 'd', 'c'];
        let mut hs = vec![];
        for t in 0..13usize {
            hs.push(std::thread::spawn(move || {
                let mut bad: Vec<(String, i32, usize)> = vec![];
                for w in (4 * t)..(4 * t + 4) {
                    let warm = format!("{}{}", RANK_CH[w / 4], suit_ch[w % 4]);
                    // the empty string and every one-character string right after the card text: none of them is a card
                    for a in 0u16..129 {
                        let s = if a == 128 { String::new() } else { (a as u8 as char).to_string() };
                        let _ = guarded(|| warm.parse::<Card>().is_ok());
                        let r = guarded(|| s.parse::<Card>().map(|c| card_id(&c) as i32).unwrap_or(-1)).unwrap_or(-2);
                        if r != -1 && bad.len() < 5 {
                            bad.push((s.clone(), r, w));
                        }
                    }
                    for a in 0u8..128 {
                        for b in 0u8..128 {
                            let s = format!("{}{}", a as char, b as char);
                            let alone = guarded(|| s.parse::<Card>().map(|c| card_id(&c) as i32).unwrap_or(-1)).unwrap_or(-2);
                            let _ = guarded(|| warm.parse::<Card>().is_ok());
                            let r = guarded(|| s.parse::<Card>().map(|c| card_id(&c) as i32).unwrap_or(-1)).unwrap_or(-2);
                            // `alone` itself came right after another string; what counts is that both agree with the
                            // first sweep, so anything unequal to either is handed to TLC
                            if r != alone && bad.len() < 5 {
                                bad.push((s.clone(), r, w));
                            }
                        }
                    }
                }
                bad
            }));
        }
        for h in hs {
            for (s, r, w) in h.join().unwrap() {
                out.line(&format!("{{\"op\":\"cparse\",\"s\":{},\"out\":{},\"after\":{}}}", codes(&s), r, w));
            }
        }
    }
    // eight threads converting words to cards and back at the same time, every word three times in a row: a conversion whose
    // result is not the card of its bit is logged as one more u2c / c2u event (judged like the others); `convsum` says how many were made
    {
        let threads = 8usize;
        let rounds = 40_000usize;
        let barrier = std::sync::Arc::new(std::sync::Barrier::new(threads));
        let mut hs = vec![];
        for t in 0..threads {
            let barrier = barrier.clone();
            hs.push(std::thread::spawn(move || {
                barrier.wait();
                let mut bad_u2c: Vec<(usize, i32)> = vec![];
                let mut bad_c2u: Vec<(usize, u32, u32)> = vec![];
                for r in 0..rounds {
                    let id = (r * 7 + t * 13) % 52;
                    for _ in 0..3 {
                        let back = guarded(move || card_id(&Card::from(&(1u64 << id))) as i32).unwrap_or(-2);
                        if back != id as i32 && bad_u2c.len() < 3 {
                            bad_u2c.push((id, back));
                        }
                        let w = guarded(move || u64::from(&card(id))).unwrap_or(0);
                        if w != 1u64 << id && bad_c2u.len() < 3 {
                            bad_c2u.push((id, w.count_ones(), w.trailing_zeros()));
                        }
                    }
                }
                (bad_u2c, bad_c2u)
            }));
        }
        let mut nbad = 0;
        for h in hs {
            let (b1, b2) = h.join().unwrap();
            for (id, back) in b1 {
                nbad += 1;
                out.line(&format!("{{\"op\":\"u2c\",\"bit\":{},\"out\":{},\"threads\":{}}}", id, back, threads));
            }
            for (id, pop, tz) in b2 {
                nbad += 1;
                out.line(&format!("{{\"op\":\"c2u\",\"id\":{},\"pop\":{},\"tz\":{},\"threads\":{}}}", id, pop, tz, threads));
            }
        }
        out.line(&format!("{{\"op\":\"convsum\",\"threads\":{},\"conversions\":{},\"deviating\":{}}}", threads, threads * rounds * 6, nbad));
    }
    // ranks and suits: numbers, characters, text, successor / predecessor
    for (i, r) in RANKS.iter().enumerate() {
        let r = *r;
        let ch: char = r.into();
        let ch2: char = (&r).into();
        out.line(&format!(
            "{{\"op\":\"rank\",\"r\":{},\"u8\":{},\"ch\":{},\"disp\":{},\"next\":{},\"prev\":{}}}",
            i,
            if u8::from(r) == u8::from(&r) { u8::from(r) as i32 } else { -3 },
            if ch == ch2 { ch as i32 } else { -3 },
            codes(&r.to_string()),
            r.next().map(|x| rank_id(&x) as i32).unwrap_or(-1),
            r.prev().map(|x| rank_id(&x) as i32).unwrap_or(-1)
        ));
    }
    for (i, s) in SUITS.iter().enumerate() {
        let s = *s;
        let ch: char = s.into();
        let ch2: char = (&s).into();
        out.line(&format!(
            "{{\"op\":\"suit\",\"s\":{},\"u8\":{},\"ch\":{},\"disp\":{}}}",
            i,
            if u8::from(s) == u8::from(&s) { u8::from(s) as i32 } else { -3 },
            if ch == ch2 { ch as i32 } else { -3 },
            codes(&s.to_string())
        ));
    }
    for c in 0u8..128 {
        let ch = c as char;
        let r1 = guarded(move || Rank::try_from(ch).map(|r| rank_id(&r) as i32).unwrap_or(-1)).unwrap_or(-2);
        let r1b = guarded(move || Rank::try_from(&ch).map(|r| rank_id(&r) as i32).unwrap_or(-1)).unwrap_or(-2);
        let r2 = guarded(move || ch.to_string().parse::<Rank>().map(|r| rank_id(&r) as i32).unwrap_or(-1)).unwrap_or(-2);
        out.line(&format!("{{\"op\":\"rchar\",\"c\":{},\"out\":{},\"str\":{}}}", c, if r1 == r1b { r1 } else { -3 }, r2));
        let s1 = guarded(move || Suit::try_from(ch).map(|r| suit_id(&r) as i32).unwrap_or(-1)).unwrap_or(-2);
        let s1b = guarded(move || Suit::try_from(&ch).map(|r| suit_id(&r) as i32).unwrap_or(-1)).unwrap_or(-2);
        let s2 = guarded(move || ch.to_string().parse::<Suit>().map(|r| suit_id(&r) as i32).unwrap_or(-1)).unwrap_or(-2);
        out.line(&format!("{{\"op\":\"schar\",\"c\":{},\"out\":{},\"str\":{}}}", c, if s1 == s1b { s1 } else { -3 }, s2));
    }
    // comparisons
    let cmp_line = |kind: &str, a: usize, b: usize, o: Option<Ordering>, t: Ordering, lt: bool, le: bool, eq: bool, out: &mut Out| {
        let c = if o == Some(t) { ord(t) } else { -3 };
        out.line(&format!(
            "{{\"op\":\"cmp\",\"kind\":\"{}\",\"a\":{},\"b\":{},\"cmp\":{},\"lt\":{},\"le\":{},\"eq\":{}}}",
            kind, a, b, c, b2i(lt), b2i(le), b2i(eq)
        ));
    };
    for a in 0..13 {
        for b in 0..13 {
            let (x, y) = (RANKS[a], RANKS[b]);
            cmp_line("rank", a, b, x.partial_cmp(&y), x.cmp(&y), x < y, x <= y, x == y, &mut out);
        }
    }
    for a in 0..4 {
        for b in 0..4 {
            let (x, y) = (SUITS[a], SUITS[b]);
            cmp_line("suit", a, b, x.partial_cmp(&y), x.cmp(&y), x < y, x <= y, x == y, &mut out);
        }
    }
    for a in 0..52 {
        for b in 0..52 {
            let (x, y) = (card(a), card(b));
            cmp_line("card", a, b, x.partial_cmp(&y), x.cmp(&y), x < y, x <= y, x == y, &mut out);
        }
    }
    // ranges with ordered endpoints
    for a in 0..13 {
        for b in a..13 {
            for incl in [false, true] {
                let (x, y) = (RANKS[a], RANKS[b]);
                let v = guarded(move || {
                    let rr = if incl { RankRange::inclusive(x, y) } else { RankRange::new(x, y) };
                    rr.into_iter().map(|r| rank_id(&r) as i32).collect::<Vec<_>>()
                })
                .unwrap_or(vec![-2]);
                out.line(&format!(
                    "{{\"op\":\"range\",\"kind\":\"rank\",\"form\":\"{}\",\"a\":{},\"b\":{},\"out\":{}}}",
                    if incl { "incl" } else { "new" }, a, b, list(&v)
                ));
            }
        }
    }
    for a in 0..4 {
        for b in a..4 {
            for incl in [false, true] {
                let (x, y) = (SUITS[a], SUITS[b]);
                let v = guarded(move || {
                    let rr = if incl { SuitRange::inclusive(x, y) } else { SuitRange::new(x, y) };
                    rr.into_iter().map(|r| suit_id(&r) as i32).collect::<Vec<_>>()
                })
                .unwrap_or(vec![-2]);
                out.line(&format!(
                    "{{\"op\":\"range\",\"kind\":\"suit\",\"form\":\"{}\",\"a\":{},\"b\":{},\"out\":{}}}",
                    if incl { "incl" } else { "new" }, a, b, list(&v)
                ));
            }
        }
    }
    // the same ranges consumed from both ends alternately (front, back, front, ...) and reassembled in order
    for a in 0..13 {
        for b in a..13 {
            for incl in [false, true] {
                let (x, y) = (RANKS[a], RANKS[b]);
                let v = guarded(move || {
                    let rr = if incl { RankRange::inclusive(x, y) } else { RankRange::new(x, y) };
                    let mut it = rr.into_iter();
                    let (mut front, mut back) = (vec![], vec![]);
                    loop {
                        match it.next() {
                            Some(r) => front.push(rank_id(&r) as i32),
                            None => break,
                        }
                        match it.next_back() {
                            Some(r) => back.push(rank_id(&r) as i32),
                            None => break,
                        }
                    }
                    back.reverse();
                    front.extend(back);
                    front
                })
                .unwrap_or(vec![-2]);
                out.line(&format!(
                    "{{\"op\":\"range\",\"kind\":\"rank\",\"form\":\"{}\",\"a\":{},\"b\":{},\"out\":{},\"ends\":1}}",
                    if incl { "incl" } else { "new" }, a, b, list(&v)
                ));
            }
        }
    }
    let v = guarded(|| RankRange::all().into_iter().map(|r| rank_id(&r) as i32).collect::<Vec<_>>()).unwrap_or(vec![-2]);
    out.line(&format!("{{\"op\":\"range\",\"kind\":\"rank\",\"form\":\"all\",\"a\":0,\"b\":0,\"out\":{}}}", list(&v)));
    let v = guarded(|| SuitRange::all().into_iter().map(|r| suit_id(&r) as i32).collect::<Vec<_>>()).unwrap_or(vec![-2]);
    out.line(&format!("{{\"op\":\"range\",\"kind\":\"suit\",\"form\":\"all\",\"a\":0,\"b\":0,\"out\":{}}}", list(&v)));
    out.finish()
}

fn std_hash<T: Hash>(t: &T) -> u64 {
    let mut h = DefaultHasher::new();
    t.hash(&mut h);
    h.finish()
}
fn fx_hash<T: Hash>(t: &T) -> u64 {
    let mut h = fxhash::FxHasher::default();
    t.hash(&mut h);
    h.finish()
}

/// is this pair value, obtained some other way than CardPair::new, the canonical value of its two cards?
fn canon_fields(p: &CardPair) -> String {
    let (x, y) = pair_ids(p);
    let n = CardPair::new(card(x), card(y));
    let m = CardPair::new(card(y), card(x));
    format!(
        "\"first\":{},\"second\":{},\"eq_new\":{},\"hash_eq\":{},\"fx_eq\":{}",
        x, y, b2i(*p == n && *p == m), b2i(std_hash(p) == std_hash(&n)), b2i(fx_hash(p) == fx_hash(&n))
    )
}

pub fn record_c14(_args: &Args, mut out: Out) -> usize {
    for a in 0..52usize {
        for b in 0..52usize {
            if a == b {
                continue;
            }
            let p = CardPair::new(card(a), card(b));
            let q = CardPair::new(card(b), card(a));
            // some other unordered pair: shift the second card to the next one that differs from both
            let mut c = (b + 1) % 52;
            while c == a || c == b {
                c = (c + 1) % 52;
            }
            let other = CardPair::new(card(a), card(c));
            let text = p.to_string();
            let rev_text = format!("{}{}", card(b), card(a));
            let fwd_text = format!("{}{}", card(a), card(b));
            let parse = |t: String| -> String {
                guarded(move || t.parse::<CardPair>().ok().map(|x| pair_ids(&x)))
                    .map(|r| r.map(|(x, y)| format!("[{},{}]", x, y)).unwrap_or("[-1]".to_string()))
                    .unwrap_or("[-2]".to_string())
            };
            let parsed = parse(text.clone());
            let both = [parse(fwd_text), parse(rev_text)];
            let parsed_rev = if both[0] == both[1] { both[0].clone() } else { "[-3]".to_string() };
            let r: HandRange = vec![(p, 0.25f32), (q, 0.5f32)].into_iter().collect();
            out.line(&format!(
                "{{\"op\":\"pair\",\"a\":{},\"b\":{},\"first\":{},\"second\":{},\"rev_first\":{},\"rev_second\":{},\"eq_rev\":{},\"hash_eq\":{},\"fx_eq\":{},\"eq_other\":{},\"map_len\":{},\"text\":{},\"parsed\":{},\"parsed_rev\":{}}}",
                a, b, card_id(&p[0]), card_id(&p[1]), card_id(&q[0]), card_id(&q[1]),
                b2i(p == q && !(p != q)), b2i(std_hash(&p) == std_hash(&q)), b2i(fx_hash(&p) == fx_hash(&q)),
                b2i(p == other || q == other), r.card_pairs().len(), codes(&text), parsed, parsed_rev
            ));
            // parsing is a function of the text alone: the suit-swapped twin right after, then the original again
            if a / 4 != b / 4 && a % 4 != b % 4 {
                let twin = format!("{}{}", card(4 * (a / 4) + b % 4), card(4 * (b / 4) + a % 4));
                let t1 = format!("{}{}", card(a), card(b));
                let seq = [parse(t1.clone()), parse(twin.clone()), parse(t1)];
                out.line(&format!(
                    "{{\"op\":\"twin\",\"a\":{},\"b\":{},\"ta\":{},\"tb\":{},\"first\":{},\"then_twin\":{},\"again\":{}}}",
                    a, b, 4 * (a / 4) + b % 4, 4 * (b / 4) + a % 4, seq[0], seq[1], seq[2]
                ));
            }
        }
    }
    // every pair formatted once more, in another order (stride 17 through the 1326 pairs, then backwards)
    {
        let all: Vec<(usize, usize)> = (0..52).flat_map(|a| ((a + 1)..52).map(move |b| (a, b))).collect();
        let n = all.len();
        // blocks of 20: all twenty, then the same twenty backwards (a pair formatted again while its neighbours are recent)
        let mut order: Vec<usize> = vec![];
        let mut i = 0;
        while i < n {
            let blk: Vec<usize> = (i..(i + 20).min(n)).map(|j| (j * 17) % n).collect();
            order.extend(blk.iter());
            order.extend(blk.iter().rev());
            i += 20;
        }
        for i in order {
            let (a, b) = all[i];
            let p = CardPair::new(card(b), card(a));
            let t = guarded(move || p.to_string()).unwrap_or_default();
            out.line(&format!("{{\"op\":\"text2\",\"a\":{},\"b\":{},\"text\":{}}}", a, b, codes(&t)));
        }
    }
    // several threads parsing their own texts at the same time: a repetition whose result differs from the expected pair
    // is logged (and judged by TLC); the summary says how many parses were made
    {
        let threads = 8usize;
        let reps = 600_000usize;
        let barrier = std::sync::Arc::new(std::sync::Barrier::new(threads));
        let mut hs = vec![];
        for t in 0..threads {
            let barrier = barrier.clone();
            hs.push(std::thread::spawn(move || {
                barrier.wait();
                let (a, b) = (4 * t + t % 4, 30 + 2 * t + (t + 1) % 4);
                let texts = [format!("{}{}", card(a), card(b)), format!("{}{}", card(b), card(a))];
                let mut bad = vec![];
                for k in 0..reps {
                    let r = texts[(k / 2) % 2].parse::<CardPair>().ok().map(|x| pair_ids(&x));   // each text twice in a row
                    if r != Some((a.min(b), a.max(b))) && bad.len() < 5 {
                        bad.push(r);
                    }
                }
                (a, b, bad)
            }));
        }
        let mut total_bad = 0;
        for h in hs {
            let (a, b, bad) = h.join().unwrap();
            for r in bad {
                total_bad += 1;
                let pj = r.map(|(x, y)| format!("[{},{}]", x, y)).unwrap_or("[-1]".to_string());
                out.line(&format!("{{\"op\":\"cpar\",\"a\":{},\"b\":{},\"parsed\":{}}}", a, b, pj));
            }
        }
        out.line(&format!("{{\"op\":\"cparsum\",\"threads\":{},\"parses\":{},\"deviating\":{}}}", threads, threads * reps, total_bad));
    }
    // every text right after every other text: all 2,652 x 2,652 ordered sequences (T1, T2) of card-pair texts, each prefix
    // on a thread of its own share; a parse of T2 whose result is not the pair of T2's cards is logged with its predecessor
    // (and judged by TLC); the summary says how many parses were made.  Texts come from the harness' own tables.
    {
        let suit_ch = ['s', 'h', 'd', 'c'];
        let ctext = |c: usize| format!("{}{}", RANK_CH[c / 4], suit_ch[c % 4]);
        let texts: Vec<(usize, usize, String)> = (0..52usize).flat_map(|a| (0..52usize).filter(move |b| *b != a).map(move |b| (a, b))).map(|(a, b)| (a, b, format!("{}{}", ctext(a), ctext(b)))).collect();
        let texts = std::sync::Arc::new(texts);
        let threads = 16usize;
        let mut hs = vec![];
        for t in 0..threads {
            let texts = texts.clone();
            hs.push(std::thread::spawn(move || {
                let mut bad: Vec<(usize, usize, usize, usize, Option<(usize, usize)>)> = vec![];
                let mut n = 0usize;
                for i in (t..texts.len()).step_by(threads) {
                    let (a1, b1, t1) = &texts[i];
                    for (a2, b2, t2) in texts.iter() {
                        let _ = guarded(|| t1.parse::<CardPair>().ok().map(|x| pair_ids(&x)));
                        let r = guarded(|| t2.parse::<CardPair>().ok().map(|x| pair_ids(&x))).unwrap_or(Some((99, 99)));
                        n += 2;
                        if r != Some((*a2.min(b2), *a2.max(b2))) && bad.len() < 5 {
                            bad.push((*a1, *b1, *a2, *b2, r));
                        }
                    }
                }
                (n, bad)
            }));
        }
        let (mut parses, mut total_bad) = (0usize, 0usize);
        for h in hs {
            let (n, bad) = h.join().unwrap();
            parses += n;
            for (a1, b1, a2, b2, r) in bad {
                total_bad += 1;
                let pj = r.map(|(x, y)| format!("[{},{}]", x, y)).unwrap_or("[-1]".to_string());
                out.line(&format!("{{\"op\":\"cpar\",\"a\":{},\"b\":{},\"parsed\":{},\"after\":[{},{}]}}", a2, b2, pj, a1, b1));
            }
        }
        out.line(&format!("{{\"op\":\"cparsum\",\"threads\":{},\"parses\":{},\"deviating\":{},\"what\":\"every text after every other text\"}}", threads, parses / 1_000, total_bad));
    }
    // pair values that reach the user by other routes than CardPair::new / parse: the combos of every rank pair
    // (both rank orders), expanded directly and through a parsed token and a parsed range
    use espada::hand_range::{HandRangeToken, RankPair};
    for h in 0..13usize {
        for k in 0..13usize {
            let mut routes: Vec<(String, Vec<CardPair>)> = vec![];
            if h == k {
                routes.push(("pocket".into(), guarded(move || RankPair::Pocket(RANKS[h]).into_iter().collect()).unwrap_or_default()));
            } else {
                routes.push(("suited".into(), guarded(move || RankPair::Suited(RANKS[h], RANKS[k]).into_iter().collect()).unwrap_or_default()));
                routes.push(("ofsuit".into(), guarded(move || RankPair::Ofsuit(RANKS[h], RANKS[k]).into_iter().collect()).unwrap_or_default()));
                for so in ['s', 'o'] {
                    let text = format!("{}{}{}", RANK_CH[h], RANK_CH[k], so);
                    let t2 = text.clone();
                    routes.push((format!("token {}", text), guarded(move || t2.parse::<HandRangeToken>().map(|t| t.into_iter().map(|x| x.0).collect()).unwrap_or_default()).unwrap_or_default()));
                    let t3 = text.clone();
                    routes.push((format!("range {}", text), guarded(move || t3.parse::<HandRange>().map(|r| r.card_pairs().keys().cloned().collect()).unwrap_or_default()).unwrap_or_default()));
                }
            }
            for (route, pairs) in routes {
                for p in pairs {
                    out.line(&format!("{{\"op\":\"route\",\"route\":{},\"h\":{},\"k\":{},{}}}", jstr(&route), h, k, canon_fields(&p)));
                }
            }
        }
    }
    out.finish()
}
