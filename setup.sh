#!/bin/sh
# Run once after a fresh restore, offline: builds the conformance harness against /repo and
# parses every specification module.  Everything comes from files on disk.
set -e
cd "$(dirname "$0")"
export CARGO_NET_OFFLINE=true
[ -f harness/Cargo.lock ] || cp /repo/Cargo.lock harness/Cargo.lock
(cd harness && cargo build --offline --release --bin hx && cargo build --offline --bin hx && (RUSTFLAGS="--cfg espada_verif --check-cfg cfg(espada_verif)" cargo build --offline --release --features hook --target-dir target-hook --bin hx || true))
python3 lib/setup_specs.py
