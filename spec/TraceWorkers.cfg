SPECIFICATION Spec
INVARIANT EventOK
CHECK_DEADLOCK FALSE
