CONSTANT L = 4
SPECIFICATION Spec
INVARIANT RoundTrip
INVARIANT Canonical
CHECK_DEADLOCK FALSE
