SPECIFICATION Spec
INVARIANT EventOK17
CHECK_DEADLOCK FALSE
