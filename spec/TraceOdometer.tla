---------------------------- MODULE TraceOdometer ----------------------------
(***************************************************************************)
(* Implementation-level binding of FlopOdometer (informational: a mismatch *)
(* is MODEL-DRIFT, never a verdict).  With the guarded accessor            *)
(* `verif_state()` (cfg espada_verif) the harness reads, after every       *)
(* next() call, the iterator's (turn index, river index, odometer digits)  *)
(* and, once, the order of each player's entries.  Between two logged      *)
(* calls the model takes the silent TickSkip steps the code takes inside   *)
(* one call; the logged call itself must be the model's TickEmit (same     *)
(* deal, same position) or Stop, and the state after it must be the logged *)
(* state.  The search is deterministic, so it is linear in the number of   *)
(* ticks.                                                                  *)
(***************************************************************************)
EXTENDS FlopOdometer, Json, IOUtils

Rec == ndJsonDeserialize(IOEnv.TRACE)
VARIABLE l
tvars == <<vars, l>>
Ev == Rec[l]
\* the logged state: digits are 0-based in the code
StateIs(e) == turn = e.turn /\ river = e.river /\ idx = [k \in 1..N |-> e.idx[k] + 1]

TInit == /\ l = 1 /\ cfg = <<>> /\ deck = <<>> /\ turn = 0 /\ river = 0 /\ idx = <<>> /\ depth = 0 /\ st = "idle" /\ gpos = <<>> /\ gseen = {}
TNew == /\ l <= Len(Rec) /\ Ev.op = "new" /\ st \in {"idle", "exhausted"}
        /\ cfg' = Ev /\ deck' = P!DeckOf(Ev.flop) /\ turn' = Ev.from[1] /\ river' = Ev.from[2]
        /\ idx' = [k \in 1..Len(Ev.ranges) |-> 1] /\ depth' = 0 /\ st' = "running" /\ gpos' = Ev.from /\ gseen' = {}
        /\ l' = l + 1 /\ TLCSet(1, l + 1)
\* silent: the ticks that skip blocked deals inside one next() call
TSkip == st = "running" /\ l <= Len(Rec) /\ Ev.op \in {"next", "none"} /\ TickSkip /\ UNCHANGED l
\* a logged next() that returned a showdown: the model's emit, with the same deal, ending in the logged state
TEmit == /\ l <= Len(Rec) /\ Ev.op = "next"
         /\ \A k \in 1..N : Entry(k).c = <<Ev.holes[k][1], Ev.holes[k][2]>>
         /\ deck[turn + 1] = Ev.board[4] /\ deck[river + 1] = Ev.board[5]
         /\ TickEmit
         /\ turn' = Ev.turn /\ river' = Ev.river /\ idx' = [k \in 1..N |-> Ev.idx[k] + 1]
         /\ l' = l + 1 /\ TLCSet(1, l + 1)
TStop == /\ l <= Len(Rec) /\ Ev.op = "none"
         /\ \/ (st = "running" /\ Stop) \/ (st = "exhausted" /\ UNCHANGED vars)
         /\ l' = l + 1 /\ TLCSet(1, l + 1)
TNext == TNew \/ TSkip \/ TEmit \/ TStop
TSpec == TInit /\ [][TNext]_tvars
Accepted == IF TLCGet(1) = Len(Rec) + 1 THEN TRUE ELSE PrintT(<<"REJECTED", TLCGet(1)>>) /\ FALSE
ASSUME TLCSet(1, 1)
=============================================================================
