------------------------------- MODULE MCCards -------------------------------
(* TLC-only self-checks of the Cards tables.  Kept out of Cards itself because TLC evaluates every
   zero-arity constant definition of every extended module at start-up. *)
EXTENDS Cards, TLC
(***************************************************************************)
(* Self-checks of the tables (evaluated by TLC through MCCards).           *)
(***************************************************************************)
TablesOK ==
  /\ \A a, b \in CardIds : a # b => CardText(a) # CardText(b)
  /\ \A c \in CardIds : CardFromText(CardText(c)) = c
  /\ \A c \in CardIds : CardId(RankOf(c), SuitOf(c)) = c
  /\ \A a, b \in CardIds : (a < b) <=> (RankOf(a) < RankOf(b) \/ (RankOf(a) = RankOf(b) /\ SuitOf(a) < SuitOf(b)))
  /\ \A r \in Ranks : (NextRank(r) # -1 => PrevRank(NextRank(r)) = r) /\ (PrevRank(r) # -1 => NextRank(PrevRank(r)) = r)
  /\ Cardinality(AllPairs) = 1326
  /\ Cardinality({PairText(p[1], p[2]) : p \in AllPairs}) = 1326
  /\ \A a \in Ranks : \A b \in a..12 :
        /\ Len(Run(a, b, TRUE)) = b - a + 1
        /\ \A i \in 1..(Len(Run(a, b, TRUE)) - 1) : Run(a, b, TRUE)[i + 1] = NextRank(Run(a, b, TRUE)[i])
ASSUME TablesOK
VARIABLE x
Init == x = 0
Next == x' = x
Spec == Init /\ [][Next]_x
=============================================================================
