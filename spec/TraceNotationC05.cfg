SPECIFICATION Spec
INVARIANT EventOK05
CHECK_DEADLOCK FALSE
