------------------------------ MODULE MCParser ------------------------------
(* every string up to MaxLen over a 22-character alphabet (ranks, suit/kind letters, punctuation, digits, three
   multi-byte characters, junk): the parsers never panic and never let an invalid value through *)
EXTENDS ParserShape
CONSTANT MaxLen
Alphabet == {"A", "K", "9", "3", "2", "s", "h", "o", "+", "-", ":", ".", ",", " ", "0", "1", "5", "U2", "U3", "U4", "x", "NL"}
VARIABLE str
Init == str = <<>>
Next == Len(str) < MaxLen /\ \E c \in Alphabet : str' = Append(str, c)
Spec == Init /\ [][Next]_str
NoPanic == Total(str)
OnlyValid == Valid(str)
=============================================================================
