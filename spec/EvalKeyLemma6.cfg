SPECIFICATION LemmaSpec
CONSTANT DeckRanks = {0, 1, 2, 10, 11, 12}
INVARIANT AbstractionLemma
CHECK_DEADLOCK FALSE
