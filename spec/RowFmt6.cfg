CONSTANT L = 6
SPECIFICATION Spec
INVARIANT RoundTrip
INVARIANT Canonical
CHECK_DEADLOCK FALSE
