CONSTANT MaxDepth = 3
SPECIFICATION Spec
INVARIANT StateIsFold
INVARIANT NoMergeable
INVARIANT Emit
CHECK_DEADLOCK FALSE
