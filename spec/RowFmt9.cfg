CONSTANT L = 9
SPECIFICATION Spec
INVARIANT RoundTrip
INVARIANT Canonical
CHECK_DEADLOCK FALSE
