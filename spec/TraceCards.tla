----------------------------- MODULE TraceCards -----------------------------
(***************************************************************************)
(* Trace validation for the pure tables (properties C13 and C14): every    *)
(* recorded call of the real library is one independent event, allowed     *)
(* iff its result is the one the Cards module defines.  Events are checked *)
(* at the leaves of a fan-out tree so that all TLC workers share them.     *)
(***************************************************************************)
EXTENDS Cards, TLC, Json, IOUtils

Rec == ndJsonDeserialize(IOEnv.TRACE)
VARIABLE l

B2I(b) == IF b THEN 1 ELSE 0
\* a text without its leading and trailing spaces
Trim(s) == LET keep == {i \in 1..Len(s) : s[i] # 32} IN
           IF keep = {} THEN <<>> ELSE SubSeq(s, CHOOSE i \in keep : \A j \in keep : i <= j, CHOOSE i \in keep : \A j \in keep : i >= j)

AllowedC13(e) ==
  CASE e.op = "c2u"    -> e.pop = WordOf(e.id).pop /\ e.tz = WordOf(e.id).tz
    [] e.op = "u2c"    -> e.out = CardOfBit(e.bit)
    [] e.op = "ctext"  -> e.s = CardText(e.id)
    [] e.op = "convsum" -> e.conversions > 0      \* summary of the concurrent conversions; each deviating one is a u2c / c2u event
    [] e.op = "cpad"   -> Trim(e.s) = CardText(e.id)      \* formatted with a width / alignment: the card's text, padding aside
    [] e.op = "cparts" -> e.rank = RankOf(e.id) /\ e.suit = SuitOf(e.id)
    [] e.op = "cparse" -> e.out = CardFromText(e.s)
    [] e.op = "rank"   -> /\ e.u8 = e.r /\ e.ch = RankChr[e.r + 1] /\ e.disp = <<RankChr[e.r + 1]>>
                          /\ e.next = NextRank(e.r) /\ e.prev = PrevRank(e.r)
    [] e.op = "suit"   -> e.u8 = e.s /\ e.ch = SuitChr[e.s + 1] /\ e.disp = <<SuitChr[e.s + 1]>>
    [] e.op = "rchar"  -> e.out = (IF IsRankChr(e.c) THEN RankFromChr(e.c) ELSE -1)
                          /\ e.str = e.out
    [] e.op = "schar"  -> e.out = (IF IsSuitChr(e.c) THEN SuitFromChr(e.c) ELSE -1)
                          /\ e.str = e.out
    [] e.op = "cmp"    -> \* kind: rank, suit or card; a, b codes
                          /\ e.cmp = Sign(e.a - e.b)
                          /\ e.lt = B2I(e.a < e.b) /\ e.le = B2I(e.a <= e.b) /\ e.eq = B2I(e.a = e.b)
    [] e.op = "range"  -> \* kind: rank or suit; form: new (exclusive end), incl, all
                          e.out = (IF e.form = "all" THEN Run(0, (IF e.kind = "rank" THEN 12 ELSE 3), TRUE)
                                   ELSE Run(e.a, e.b, e.form = "incl"))
    [] OTHER -> FALSE

AllowedC14(e) ==
  CASE e.op = "pair" ->
         LET p == Pair(e.a, e.b) IN
         /\ e.first = p[1] /\ e.second = p[2]            \* canonical form: the card that orders first comes first
         /\ e.rev_first = p[1] /\ e.rev_second = p[2]    \* same for the other construction order
         /\ e.eq_rev = 1 /\ e.hash_eq = 1 /\ e.fx_eq = 1  \* equal values, equal hashes
         /\ e.eq_other = 0                                \* a different unordered pair is a different value
         /\ e.map_len = 1                                 \* a map keyed by pairs holds the combo once
         /\ e.text = PairText(e.a, e.b)
         /\ e.parsed = p /\ e.parsed_rev = p             \* text parses back; both card orders of a text parse equal
    [] e.op = "twin" ->     \* parsing depends on the text alone: a text, its suit-swapped twin, the text again
         /\ e.first = Pair(e.a, e.b) /\ e.then_twin = Pair(e.ta, e.tb) /\ e.again = Pair(e.a, e.b)
    [] e.op = "text2" -> e.text = PairText(e.a, e.b)      \* formatting is a function of the pair, whatever was formatted before
    [] e.op = "cpar" -> e.parsed = Pair(e.a, e.b)        \* a parse made while other threads parse other texts
    [] e.op = "cparsum" -> e.parses > 0
    [] e.op = "route" ->    \* a pair value obtained through a rank pair, a token or a range is the canonical value of its cards
         /\ e.first < e.second                               \* the card that orders first comes first
         /\ e.eq_new = 1 /\ e.hash_eq = 1 /\ e.fx_eq = 1     \* equal to, and hashing like, CardPair::new of the same cards
    [] OTHER -> FALSE

Allowed(e) == IF e.op \in {"pair", "twin", "route", "text2", "cpar", "cparsum"} THEN AllowedC14(e) ELSE AllowedC13(e)

K == 64
Init == l = <<"root">>
Next == \/ l = <<"root">> /\ \E k \in 0..(K - 1) : l' = <<"shard", k>>
        \/ l[1] = "shard" /\ \E i \in 1..Len(Rec) : i % K = l[2] /\ l' = <<"event", i>>
Spec == Init /\ [][Next]_l
EventOK == l[1] = "event" => (Allowed(Rec[l[2]]) \/ PrintT(<<"BAD", l[2]>>))

=============================================================================
