------------------------------ MODULE Symmetry ------------------------------
(***************************************************************************)
(* C11: equities are invariant under suit relabelling and follow player    *)
(* reordering.                                                             *)
(*                                                                         *)
(* A suit permutation sigma acts on card ids (rank kept, suit mapped), on  *)
(* combos, ranges, flops; a seat permutation pi moves player i to seat     *)
(* pi[i].  The tally of a run: tally[p][k] = number of showdowns in which  *)
(* player p is one of exactly k winners (what the README loop accumulates  *)
(* with 1/winner_len shares).                                              *)
(*                                                                         *)
(* Design level (MCSym): on a window of whole ranks of the real deck, the  *)
(* tally defined by FlopEnum!Legal, Eval7 and Winners is invariant under   *)
(* all 24 sigma and covariant under all pi.  Trace level (TraceSym): the   *)
(* same relation between recorded complete runs of the real evaluator.     *)
(***************************************************************************)
EXTENDS Naturals, Integers, Sequences, FiniteSets, TLC, SequencesExt, FiniteSetsExt

SigmaCard(sg, c) == 4 * (c \div 4) + sg[(c % 4) + 1]
MinMax(a, b) == IF a <= b THEN <<a, b>> ELSE <<b, a>>
SigmaCombo(sg, cb) == MinMax(SigmaCard(sg, cb[1]), SigmaCard(sg, cb[2]))
SigmaFlop(sg, f) == <<SigmaCard(sg, f[1]), SigmaCard(sg, f[2]), SigmaCard(sg, f[3])>>
\* ranges as sets of entries (the order of entries inside a range is not part of a configuration)
EntrySet(r) == {<<r[i].c[1], r[i].c[2], r[i].m, r[i].e>> : i \in DOMAIN r}
SigmaEntrySet(sg, r) == {<<SigmaCombo(sg, <<r[i].c[1], r[i].c[2]>>)[1], SigmaCombo(sg, <<r[i].c[1], r[i].c[2]>>)[2], r[i].m, r[i].e>> : i \in DOMAIN r}
IsPerm(p, n) == Len(p) = n /\ {p[i] : i \in 1..n} = 1..n
IsSuitPerm(sg) == Len(sg) = 4 /\ {sg[i] : i \in 1..4} = 0..3

\* cfg2 is sigma then pi applied to cfg1
IsImage(cfg1, cfg2, sg, pi) ==
  LET n == Len(cfg1.ranges) IN
  /\ IsSuitPerm(sg) /\ IsPerm(pi, n) /\ Len(cfg2.ranges) = n
  /\ cfg2.flop = SigmaFlop(sg, cfg1.flop)
  /\ \A i \in 1..n : EntrySet(cfg2.ranges[pi[i]]) = SigmaEntrySet(sg, cfg1.ranges[i])

\* tallies: t[p][k], p in 1..n, k in 1..n
TallyImage(t1, t2, pi) == \A i \in DOMAIN t1 : t2[pi[i]] = t1[i]
=============================================================================
