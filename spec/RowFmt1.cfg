CONSTANT L = 1
SPECIFICATION Spec
INVARIANT RoundTrip
INVARIANT Canonical
CHECK_DEADLOCK FALSE
