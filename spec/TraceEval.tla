------------------------------ MODULE TraceEval ------------------------------
(***************************************************************************)
(* Trace validation of the seven-card evaluator (C01, C07).                *)
(*   eval : MadeHand::from(cards) -> power index, hand_type                *)
(*   cmp  : two evaluated hands compared with ==, <, <=, cmp, partial_cmp  *)
(* The expected index is computed from the raw card ids by the rules of    *)
(* poker (Eval7), never from anything the implementation reported.         *)
(***************************************************************************)
EXTENDS PokerTab, IOUtils

Rec == ndJsonDeserialize(IOEnv.TRACE)
VARIABLE l
Sgn(x) == IF x < 0 THEN -1 ELSE IF x > 0 THEN 1 ELSE 0
B2I(b) == IF b THEN 1 ELSE 0

\* C01: index = strength class of the best five-card hand
IndexOK(e) == Distinct7(e.cards) /\ e.idx = Eval7(e.cards)
\* the harness' statement of which key the hand belongs to (used for coverage accounting only)
KeyOK(e) == LET k == KeyOf(e.cards) IN e.fl = k.fl /\ e.key = k.r
\* C07: reported category = category of the best five-card hand
TypeOK7(e) == e.ty = CatName(CatOfIndex(Eval7(e.cards)))
\* C01: smaller index wins, equal index ties, for every comparison operator
CmpOK(e) ==
  LET a == Eval7(e.a)  b == Eval7(e.b)
  IN /\ e.cmp = Sgn(a - b) /\ e.pcmp = Sgn(a - b)
     /\ e.lt = B2I(a < b) /\ e.le = B2I(a <= b) /\ e.gt = B2I(a > b) /\ e.eq = B2I(a = b) /\ e.ne = B2I(a # b)

AllowedC01(e) == IF e.op = "eval" THEN IndexOK(e) /\ KeyOK(e) ELSE IF e.op = "cmp" THEN CmpOK(e) ELSE FALSE
AllowedC07(e) == IF e.op = "eval" THEN TypeOK7(e) ELSE e.op = "cmp"

K == 64
Init == l = <<"root">>
Next == \/ l = <<"root">> /\ \E k \in 0..(K - 1) : l' = <<"shard", k>>
        \/ l[1] = "shard" /\ \E i \in 1..Len(Rec) : i % K = l[2] /\ l' = <<"event", i>>
Spec == Init /\ [][Next]_l
EventOK01 == l[1] = "event" => (AllowedC01(Rec[l[2]]) \/ PrintT(<<"BAD", l[2]>>))
EventOK07 == l[1] = "event" => (AllowedC07(Rec[l[2]]) \/ PrintT(<<"BAD", l[2]>>))
=============================================================================
