---------------------------- MODULE FlopOdometer ----------------------------
(***************************************************************************)
(* Implementation-shaped specification of                                  *)
(* src/evaluator/flop_exhaustive.rs: FlopExhaustiveEvaluatorIterator.      *)
(*                                                                         *)
(* State: the (turn, river) index pair, one odometer digit per player      *)
(* (last player fastest), the re-entry depth of next(), a status.          *)
(* One action per tick of next(): TickEmit / TickSkip (examine one deal,   *)
(* then advance the odometer, the river or the turn), Stop, and the NAMED  *)
(* DEVIATIONS of the code as it was found at the pinned commit, each       *)
(* switched by a constant so that the as-found configuration stays         *)
(* checkable (TLC must find the defect in it):                             *)
(*   BlockPlayers = FALSE : hole cards of earlier players are not blocked  *)
(*   CounterMod   = 256   : digits are u8 and compared with len as u8 - 1  *)
(*   OverflowChecks       : ... which panics in a debug build when         *)
(*                          len mod 256 = 0                                *)
(*   EmptyGuard   = FALSE : an empty range is indexed at [0] -> panic      *)
(*   Reenter      = TRUE  : a blocked deal makes next() call itself        *)
(* The repaired code is BlockPlayers, CounterMod = 0 (usize), EmptyGuard,  *)
(* ~Reenter.  Refinement: every step is a step of FlopEnum (or stutters).  *)
(***************************************************************************)
EXTENDS Naturals, Integers, Sequences, FiniteSets, TLC, SequencesExt, FiniteSetsExt
CONSTANTS Universe, Configs, BlockPlayers, CounterMod, OverflowChecks, EmptyGuard, Reenter
VARIABLES cfg, deck, turn, river, idx, depth, st, gpos, gseen   \* gpos, gseen: ghost variables (refinement mapping)
vars == <<cfg, deck, turn, river, idx, depth, st, gpos, gseen>>
P == INSTANCE FlopEnum WITH pos <- gpos, seen <- gseen
D == P!D
N == Len(cfg.ranges)

Init == /\ cfg \in Configs /\ deck = P!DeckOf(cfg.flop)
        /\ turn = cfg.from[1] /\ river = cfg.from[2]
        /\ idx = [k \in 1..Len(cfg.ranges) |-> 1] /\ depth = 0 /\ st = "running"
        /\ gpos = cfg.from /\ gseen = {}

Entry(k) == cfg.ranges[k][idx[k]]
\* the blocking test of one tick: used = {turn, river} (+ earlier players' cards once repaired);
\* afterwards Showdown::new rejects any hole card on the five-card board
Blocked ==
  LET t == deck[turn + 1]  r == deck[river + 1]
      RECURSIVE Scan(_, _)
      Scan(k, used) == IF k > N THEN FALSE
                       ELSE LET e == Entry(k).c IN
                            IF e[1] \in used \/ e[2] \in used THEN TRUE
                            ELSE Scan(k + 1, IF BlockPlayers THEN used \cup {e[1], e[2]} ELSE used)
      board == {cfg.flop[1], cfg.flop[2], cfg.flop[3], t, r}
  IN Scan(1, {t, r}) \/ \E k \in 1..N : Entry(k).c[1] \in board \/ Entry(k).c[2] \in board

\* largest digit value before a carry, as the code computes it
Lim(k) == LET n == Len(cfg.ranges[k]) IN
          IF CounterMod = 0 THEN n - 1 ELSE ((n % CounterMod) - 1) % CounterMod
CanInc == {k \in 1..N : idx[k] - 1 < Lim(k)}
Advance ==
  IF CanInc # {} THEN LET k == Max(CanInc) IN
       /\ idx' = [j \in 1..N |-> IF j < k THEN idx[j] ELSE IF j = k THEN idx[j] + 1 ELSE 1]
       /\ UNCHANGED <<turn, river>>
  ELSE IF river < D - 1 THEN river' = river + 1 /\ idx' = [j \in 1..N |-> 1] /\ UNCHANGED turn
  ELSE turn' = turn + 1 /\ river' = turn + 2 /\ idx' = [j \in 1..N |-> 1]

Stopped == turn >= cfg.to[1] /\ river >= cfg.to[2]
SomeEmpty == \E k \in 1..N : Len(cfg.ranges[k]) = 0
\* a digit beyond the entry list (only reachable when the counter wraps) is an out-of-bounds index
DigitOOB == \E k \in 1..N : idx[k] > Len(cfg.ranges[k])
SubOverflow == OverflowChecks /\ CounterMod # 0 /\ \E k \in 1..N : Len(cfg.ranges[k]) % CounterMod = 0

Stop == /\ st = "running" /\ (Stopped \/ (EmptyGuard /\ SomeEmpty))
        /\ st' = "exhausted" /\ depth' = 0
        /\ UNCHANGED <<cfg, deck, turn, river, idx, gpos, gseen>>
Panic == /\ st = "running" /\ ~Stopped
         /\ \/ (~EmptyGuard /\ SomeEmpty)       \* named deviation D5: player_entry[0] of an empty list
            \/ (~SomeEmpty /\ SubOverflow)      \* named deviation D4: len as u8 - 1 with len = 256 (debug)
            \/ (~SomeEmpty /\ DigitOOB)
         /\ st' = "panic" /\ UNCHANGED <<cfg, deck, turn, river, idx, depth, gpos, gseen>>
Live == st = "running" /\ ~Stopped /\ ~SomeEmpty /\ ~SubOverflow /\ ~DigitOOB
TickSkip == /\ Live /\ Blocked
            /\ Advance /\ depth' = (IF Reenter THEN depth + 1 ELSE 0)   \* named deviation D6: next() re-enters itself
            /\ UNCHANGED <<cfg, deck, st, gpos, gseen>>
TickEmit == /\ Live /\ ~Blocked
            /\ Advance /\ depth' = 0
            /\ gpos' = <<turn, river>>
            /\ gseen' = (IF gpos = <<turn, river>> THEN gseen ELSE {}) \cup {idx}
            /\ UNCHANGED <<cfg, deck, st>>
Stay == st # "running" /\ UNCHANGED vars
Next == Stop \/ Panic \/ TickSkip \/ TickEmit \/ Stay
Spec == Init /\ [][Next]_vars /\ WF_vars(Next)

\* ----- refinement: every step is a step of the property-level specification, or stutters
RefStep == [][ \/ (st = "running" /\ st' = "running" /\ gpos' = gpos /\ gseen' = gseen)                  \* skip
               \/ (st' = "running" /\ P!YieldOK(cfg, deck, gpos, gseen, st, gpos', idx))                \* emit
               \/ (st = "running" /\ st' = "exhausted" /\ P!ExhaustOK(cfg, deck, gpos, gseen, st))      \* stop
               \/ (st # "running" /\ st' = st) ]_vars
NoPanic == st # "panic"
Terminates == <>(st # "running")
DepthBound == depth <= 1
\* the counting form used by the real-size trace specifications agrees with the set form (checked on initial states)
CountMatches == (depth = 0 /\ gseen = {} /\ turn = cfg.from[1] /\ river = cfg.from[2] /\ st = "running" /\ idx = [k \in 1..N |-> 1]) =>
  \A p \in {<<44, 45>>, <<45, 47>>, <<47, 48>>} : P!CountLegal(cfg, deck, p) = Cardinality(P!Legal(cfg, deck, p))
=============================================================================
