----------------------------- MODULE RangeSplit -----------------------------
(***************************************************************************)
(* C12 inside one rank pair of N combos (N = 6, 4, 12): a pattern assigns  *)
(* each combo 0 (absent), 1 (weight a) or 2 (weight b).                    *)
(* Property level: the pair is reported iff no combo is absent and all     *)
(* weights are equal.  Implementation shape (rank_pairs): probe the FIRST  *)
(* combo; if present, require all() combos to be present with the probe's  *)
(* weight.  TLC checks the two agree on all 3^N patterns.                  *)
(***************************************************************************)
EXTENDS Naturals, FiniteSets, Sequences
CONSTANT N
VARIABLE pat
Init == pat \in [1..N -> 0..2]
Next == UNCHANGED pat
Spec == Init /\ [][Next]_pat
ReportedP == (\A i \in 1..N : pat[i] # 0) /\ (\A i, j \in 1..N : pat[i] = pat[j])
ReportedI == pat[1] # 0 /\ (\A i \in 1..N : pat[i] # 0 /\ pat[i] = pat[1])
Agree == ReportedP = ReportedI
=============================================================================
