------------------------------ MODULE MCScopes ------------------------------
(* TLC model for Scopes: every valid chain of up to MaxCuts scopes over a deck of D cards tiles every
   run shape (0..2 items at each position, items tagged so that order matters). *)
EXTENDS Scopes
CONSTANT MaxCuts
VARIABLES run, chain
PosSeq == SetToSortSeq(Positions, PosLT)
Runs == {Concat([i \in 1..Len(PosSeq) |-> [j \in 1..cnt[i] |-> [pos |-> PosSeq[i], tag |-> j]]]) : cnt \in [1..Len(PosSeq) -> 0..2]}
RECURSIVE ChainsFrom(_, _)
ChainsFrom(a, k) ==     \* all chains starting at cut a with at most k scopes
  {<<[from |-> a, to |-> End]>>} \cup
  (IF k <= 1 THEN {} ELSE UNION {{<<[from |-> a, to |-> b]>> \o rest : rest \in ChainsFrom(b, k - 1)} : b \in {c \in Cuts : PosLE(a, c)}})
Init == run \in Runs /\ chain \in ChainsFrom(<<0, 1>>, MaxCuts)
Next == UNCHANGED <<run, chain>>
Spec == Init /\ [][Next]_<<run, chain>>
TilingTheorem == (ValidChain(chain) /\ Monotone(run)) /\ Tiles(run, chain)
=============================================================================
