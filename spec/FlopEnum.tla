------------------------------ MODULE FlopEnum ------------------------------
(***************************************************************************)
(* Property-level specification of flop enumeration (C02, C04, C08):       *)
(* what ANY correct implementation may do.  The definitions (positions,    *)
(* legal deals, the step predicates YieldOK / ExhaustOK) are in FlopDefs.  *)
(* The enumeration may yield the legal deals of a position in any order,   *)
(* but positions in order, each deal exactly once, nothing else; then it   *)
(* is exhausted and stays so.                                              *)
(***************************************************************************)
EXTENDS FlopDefs

VARIABLES cfg, pos, seen, st
vars == <<cfg, pos, seen, st>>
Yield == \E p \in Positions : \E deal \in Legal(cfg, DeckOf(cfg.flop), p) :
           /\ YieldOK(cfg, DeckOf(cfg.flop), pos, seen, st, p, deal)
           /\ pos' = p /\ seen' = (IF p = pos THEN seen ELSE {}) \cup {deal} /\ UNCHANGED <<cfg, st>>
Exhaust == ExhaustOK(cfg, DeckOf(cfg.flop), pos, seen, st) /\ st' = "exhausted" /\ UNCHANGED <<cfg, pos, seen>>
Stay == st = "exhausted" /\ UNCHANGED vars
Next == Yield \/ Exhaust \/ Stay
=============================================================================
