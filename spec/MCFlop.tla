------------------------------- MODULE MCFlop -------------------------------
(***************************************************************************)
(* Small-scope configuration family for FlopOdometer => FlopEnum.  The     *)
(* universe is the real 52-card deck; the scope stays inside the tail      *)
(* window (44,45)..(48,49), i.e. the ten pairs of the last five deck       *)
(* cards, so every configuration is also a configuration of the real       *)
(* evaluator (the conformance harness replays the same family).            *)
(* Pool: combos inside the window, half inside, outside, touching a flop,  *)
(* sharing a card with another pool member.                                *)
(***************************************************************************)
EXTENDS FlopOdometer
CONSTANTS MaxLen, NPl, Flops, Froms
Pool == <<[c |-> <<48, 49>>, m |-> 1, e |-> 0], [c |-> <<49, 51>>, m |-> 3, e |-> 1],
          [c |-> <<10, 47>>, m |-> 1, e |-> 1], [c |-> <<1, 2>>, m |-> 1, e |-> 2],
          [c |-> <<0, 48>>, m |-> 3, e |-> 2], [c |-> <<2, 50>>, m |-> 5, e |-> 3]>>
Seqs(S, n) == UNION {[1..k -> S] : k \in 0..n}
Inj(s) == \A i, j \in DOMAIN s : i # j => s[i] # s[j]
RangesOf == {[i \in DOMAIN s |-> Pool[s[i]]] : s \in {q \in Seqs(1..Len(Pool), MaxLen) : Inj(q)}}
Window == {p \in (44..47) \X (45..48) : p[1] < p[2]} \cup {<<48, 49>>}
MCConfigs == {[flop |-> f, ranges |-> rs, from |-> ab[1], to |-> ab[2]] :
                f \in Flops, rs \in [1..NPl -> RangesOf], ab \in {x \in Froms \X Window : P!PosLE(x[1], x[2])}}
FlopsQuick == {<<0, 5, 6>>, <<51, 20, 3>>}
FlopsAll == {<<0, 5, 6>>, <<51, 20, 3>>, <<49, 50, 10>>}
FromsQuick == {<<44, 45>>, <<45, 47>>, <<46, 48>>}
FromsAll == Window
=============================================================================
