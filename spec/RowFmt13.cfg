CONSTANT L = 13
SPECIFICATION Spec
INVARIANT RoundTrip
INVARIANT Canonical
CHECK_DEADLOCK FALSE
