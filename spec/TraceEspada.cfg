CONSTANT Universe = {0,1,2,3,4,5,6,7,8,9,10,11,12,13,14,15,16,17,18,19,20,21,22,23,24,25,26,27,28,29,30,31,32,33,34,35,36,37,38,39,40,41,42,43,44,45,46,47,48,49,50,51}
SPECIFICATION TSpec
INVARIANT TypeOK
POSTCONDITION Accepted
CHECK_DEADLOCK FALSE
