------------------------------- MODULE TraceFmt -------------------------------
(***************************************************************************)
(* Trace validation of HandRange formatting and splitting against          *)
(* RangeFmt (C06, C12, C17).  One event per range of the real library:     *)
(*   range    - the contents [a, b, weight bits]                           *)
(*   toks     - to_string() split at ',' : body characters and weight      *)
(*   reparsed - to_string().parse::<HandRange>()                           *)
(*   rps/orph - rank_pairs() and orphan_card_pairs()                       *)
(*   ops      - (optional) the construction history that produced it       *)
(*   same_as  - line of the first event of this trace with equal contents  *)
(***************************************************************************)
EXTENDS RangeFmt, Json, IOUtils

Rec == ndJsonDeserialize(IOEnv.TRACE)
VARIABLE l
KeyIdx(tr) == [c \in {<<tr[i][1], tr[i][2]>> : i \in DOMAIN tr} |-> (CHOOSE i \in DOMAIN tr : <<tr[i][1], tr[i][2]>> = c)]
MapOf(tr) == LET idx == KeyIdx(tr) IN [c \in DOMAIN idx |-> tr[idx[c]][3]]
NoDupKeys(tr) == Cardinality({<<tr[i][1], tr[i][2]>> : i \in DOMAIN tr}) = Len(tr)
\* contents are sets of UNORDERED combos: a key is read as the pair of its two cards, whichever order the library stored them in
\* (on a correct library every stored key is already the canonical pair and Norm changes nothing; C14 checks that separately)
Norm(tr) == [i \in DOMAIN tr |-> <<IF tr[i][1] <= tr[i][2] THEN tr[i][1] ELSE tr[i][2], IF tr[i][1] <= tr[i][2] THEN tr[i][2] ELSE tr[i][1], tr[i][3]>>]
TokSeq(e) == [i \in DOMAIN e.toks |-> [tok |-> ParseBody(e.toks[i].body), w |-> e.toks[i].w]]

\* C06: the text parses back to the same combos with bit-identical weights
AllowedC06(e) == e.op = "fmt" => (e.fmtres = "ok" /\ e.reparse = "ok" /\ NoDupKeys(Norm(e.reparsed)) /\ NoDupKeys(Norm(e.range)) /\ MapOf(Norm(e.reparsed)) = MapOf(Norm(e.range)))
\* C12: rank_pairs() = the complete rank pairs with their weight; orphan_card_pairs() = the rest; together they cover the range once
AllowedC12(e) == e.op = "fmt" =>
  LET m == MapOf(Norm(e.range))  rps == {e.rps[i] : i \in DOMAIN e.rps} IN
  /\ e.split = "ok" /\ NoDupKeys(Norm(e.range))
  /\ Len(e.rps) = Cardinality(rps)
  /\ {<<x[1], x[2], x[3], <<x[4]>>>> : x \in rps} = {<<rp.t, rp.h, rp.k, Cell(m, rp)>> : rp \in Complete(m)}
  /\ NoDupKeys(Norm(e.orph)) /\ MapOf(Norm(e.orph)) = [c \in Orphans(m) |-> m[c]]
\* C17: canonical text - one token per maximal run in the stated order, then the leftovers; equal ranges print identically
AllowedC17(e) == e.op = "fmt" =>
  LET m == MapOf(Norm(e.range)) IN
  /\ e.fmtres = "ok" /\ NoDupKeys(Norm(e.range))
  /\ TextOK(m, TokSeq(e))
  /\ (e.ops # <<>> => m = RangeOf([i \in DOMAIN e.ops |-> [tok |-> ParseBody(e.ops[i].b), w |-> e.ops[i].w]], Empty))
  /\ (Rec[e.same_as].range = e.range => Rec[e.same_as].text = e.text)
Drift17(e, i) == (e.op = "fmt" /\ e.fmtres = "ok" /\ ~SpellingOK(MapOf(Norm(e.range)), TokSeq(e))) => PrintT(<<"DRIFT", i>>)

K == 64
Init == l = <<"root">>
Next == \/ l = <<"root">> /\ \E k \in 0..(K - 1) : l' = <<"shard", k>>
        \/ l[1] = "shard" /\ \E i \in 1..Len(Rec) : i % K = l[2] /\ l' = <<"event", i>>
Spec == Init /\ [][Next]_l
EventOK06 == l[1] = "event" => (AllowedC06(Rec[l[2]]) \/ PrintT(<<"BAD", l[2]>>))
EventOK12 == l[1] = "event" => (AllowedC12(Rec[l[2]]) \/ PrintT(<<"BAD", l[2]>>))
EventOK17 == l[1] = "event" => ((AllowedC17(Rec[l[2]]) \/ PrintT(<<"BAD", l[2]>>)) /\ Drift17(Rec[l[2]], l[2]))
=============================================================================
