CONSTANT N = 4
SPECIFICATION Spec
INVARIANT Agree
CHECK_DEADLOCK FALSE
