------------------------------ MODULE TraceDrain ------------------------------
(***************************************************************************)
(* C08: each event is one child process that drained one evaluator on a    *)
(* thread with a 2 MiB stack, in one build profile.  FlopEnum has no panic *)
(* and no stack: every behaviour ends in "exhausted" after exactly the     *)
(* legal deals of the scope.  So the only allowed outcome is "ok", after   *)
(* finitely many showdowns, with None again on further calls; an empty     *)
(* range has no legal deal, so the run is empty.                           *)
(***************************************************************************)
EXTENDS FlopEnum, Json, IOUtils

Rec == ndJsonDeserialize(IOEnv.TRACE)
VARIABLE l
\* The number of showdowns is C02's business; C08 only asks that the run ends normally, stays ended, and is empty
\* when a player has no hands.  (A recorder that sees more showdowns than deals can exist stops and reports
\* sticky = 0, so an endless iterator is rejected here without being waited for.)
\* positions x product of the range sizes, saturated (TLC integers are 32-bit)
SatMul(a, b) == IF b = 0 THEN 0 ELSE IF a > 1000000 \div b THEN 1000000 ELSE a * b
MaxDeals(e) == LET RECURSIVE Prod(_)
                   Prod(k) == IF k > Len(e.ranges) THEN 1 ELSE SatMul(Prod(k + 1), (IF Len(e.ranges[k]) = 0 THEN 1 ELSE Len(e.ranges[k])))
               IN 1177 * Prod(1)
AllowedC08(e) ==
  /\ e.outcome = "ok"
  /\ e.sticky = 1
  /\ e.count >= 0 /\ e.count <= MaxDeals(e)
  /\ ((\E k \in 1..Len(e.ranges) : Len(e.ranges[k]) = 0) => e.count = 0)

K == 16
TInit == l = <<"root">> /\ cfg = <<>> /\ pos = <<>> /\ seen = {} /\ st = ""
TNext == /\ UNCHANGED <<cfg, pos, seen, st>>
         /\ \/ l = <<"root">> /\ \E k \in 0..(K - 1) : l' = <<"shard", k>>
            \/ l[1] = "shard" /\ \E i \in 1..Len(Rec) : i % K = l[2] /\ l' = <<"event", i>>
TSpec == TInit /\ [][TNext]_<<l, cfg, pos, seen, st>>
EventOK == l[1] = "event" => (AllowedC08(Rec[l[2]]) \/ PrintT(<<"BAD", l[2]>>))
=============================================================================
