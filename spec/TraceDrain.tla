------------------------------ MODULE TraceDrain ------------------------------
(***************************************************************************)
(* C08: each event is one child process that drained one evaluator on a    *)
(* thread with a 2 MiB stack, in one build profile.  FlopEnum has no panic *)
(* and no stack: every behaviour ends in "exhausted" after exactly the     *)
(* legal deals of the scope.  So the only allowed outcome is "ok", with    *)
(* the number of yielded showdowns equal to the number of legal deals,     *)
(* and None again on further calls.  An empty range has no legal deal.     *)
(***************************************************************************)
EXTENDS FlopEnum, Json, IOUtils

Rec == ndJsonDeserialize(IOEnv.TRACE)
VARIABLE l
AllowedC08(e) ==
  /\ e.outcome = "ok"
  /\ e.sticky = 1
  /\ e.count = TotalLegal(e, DeckOf(e.flop), e.from, e.to)

K == 16
TInit == l = <<"root">> /\ cfg = <<>> /\ pos = <<>> /\ seen = {} /\ st = ""
TNext == /\ UNCHANGED <<cfg, pos, seen, st>>
         /\ \/ l = <<"root">> /\ \E k \in 0..(K - 1) : l' = <<"shard", k>>
            \/ l[1] = "shard" /\ \E i \in 1..Len(Rec) : i % K = l[2] /\ l' = <<"event", i>>
TSpec == TInit /\ [][TNext]_<<l, cfg, pos, seen, st>>
EventOK == l[1] = "event" => (AllowedC08(Rec[l[2]]) \/ PrintT(<<"BAD", l[2]>>))
=============================================================================
