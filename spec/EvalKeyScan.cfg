SPECIFICATION ScanSpec
CONSTANT DeckRanks = {0}
INVARIANT ScanCorrect
INVARIANT ScanNoEarlyMiss
CHECK_DEADLOCK FALSE
