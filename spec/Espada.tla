------------------------------- MODULE Espada -------------------------------
(***************************************************************************)
(* The library as ONE system (property level): live ranges, evaluators and *)
(* iterators, each identified by a handle, and every public call as an     *)
(* action over them.  The actions are the ones of the component modules:   *)
(*   ranges      Notation!RangeOf (parse), collect, RangeFmt!TextOK (text),*)
(*               RangeFmt!Complete / Orphans (split)                       *)
(*   evaluators  FlopDefs configurations, scope() (last call wins)         *)
(*   iterators   FlopDefs step predicates (yield a legal deal of the least *)
(*               position that still has one, once; exhaust; stay)         *)
(*   showdowns   PokerTab!Eval7 and the arg-min winners                    *)
(* Values are copied when handed over (an evaluator owns the contents of   *)
(* its ranges as they were at new(); an iterator owns its evaluator's      *)
(* configuration as it was at into_iter()), so no later call on one handle *)
(* can change what another handle does.  Each action takes the observed    *)
(* result as a parameter; TraceEspada binds them to recorded calls.        *)
(***************************************************************************)
EXTENDS FlopDefs, RangeFmt, PokerTab

VARIABLES ranges, evals, iters     \* functions from handles (naturals) to abstract values
svars == <<ranges, evals, iters>>

\* weights used at system level are dyadic; their bit patterns and exact values m / 2^e
DyBits == <<1065353216, 1056964608, 1048576000, 1061158912, 1040187392, 1052770304, 1059061760, 0>>
DyVal  == <<<<1, 0>>, <<1, 1>>, <<1, 2>>, <<3, 2>>, <<1, 3>>, <<3, 3>>, <<5, 3>>, <<0, 0>>>>
DyOf(bits) == DyVal[CHOOSE i \in 1..Len(DyBits) : DyBits[i] = bits]
IsDy(bits) == \E i \in 1..Len(DyBits) : DyBits[i] = bits

ComboLT(a, b) == a[1] < b[1] \/ (a[1] = b[1] /\ a[2] < b[2])
\* a range (function combo -> bits) as the entry sequence FlopDefs works with
Entries(m) == LET cs == SetToSortSeq(DOMAIN m, ComboLT) IN
              [i \in 1..Len(cs) |-> [c |-> cs[i], m |-> DyOf(m[cs[i]])[1], e |-> DyOf(m[cs[i]])[2]]]
Winners(idx) == {i \in DOMAIN idx : \A j \in DOMAIN idx : idx[i] <= idx[j]}
Fresh(f, h) == h \notin DOMAIN f
With(f, h, v) == [x \in DOMAIN f \cup {h} |-> IF x = h THEN v ELSE f[x]]

SInit == ranges = <<>> /\ evals = <<>> /\ iters = <<>>

\* ---------------------------------------------------------------- ranges
Parse(r, toks, contents) ==            \* toks: sequence of [tok, w]; contents: what card_pairs() shows afterwards
  /\ Fresh(ranges, r) /\ contents = RangeOf(toks, Empty)
  /\ ranges' = With(ranges, r, contents) /\ UNCHANGED <<evals, iters>>
Collect(r, items, contents) ==         \* items: sequence of <<combo, w>>, later overwrites
  /\ Fresh(ranges, r)
  /\ contents = RangeOf([i \in DOMAIN items |-> [tok |-> [kind |-> "cards", c |-> items[i][1]], w |-> items[i][2]]], Empty)
  /\ ranges' = With(ranges, r, contents) /\ UNCHANGED <<evals, iters>>
Format(r, toks) ==                     \* the printed tokens, read back
  /\ r \in DOMAIN ranges /\ TextOK(ranges[r], toks) /\ RoundTripOK(ranges[r], toks)
  /\ UNCHANGED svars
Split(r, rps, orph) ==                 \* rps: set of <<t, h, k, w>>; orph: function combo -> w
  /\ r \in DOMAIN ranges
  /\ rps = {<<rp.t, rp.h, rp.k, Cell(ranges[r], rp)[1]>> : rp \in Complete(ranges[r])}
  /\ orph = [c \in Orphans(ranges[r]) |-> ranges[r][c]]
  /\ UNCHANGED svars

\* ---------------------------------------------------------------- evaluators
NewEvaluator(e, flop, rs) ==           \* rs: sequence of range handles
  /\ Fresh(evals, e) /\ \A k \in DOMAIN rs : rs[k] \in DOMAIN ranges
  /\ evals' = With(evals, e, [flop |-> flop, ranges |-> [k \in DOMAIN rs |-> Entries(ranges[rs[k]])], from |-> <<0, 1>>, to |-> End])
  /\ UNCHANGED <<ranges, iters>>
Scope(e, from, to) ==
  /\ e \in DOMAIN evals
  /\ evals' = [evals EXCEPT ![e] = [@ EXCEPT !.from = from, !.to = to]]
  /\ UNCHANGED <<ranges, iters>>
IntoIter(e, i) ==                      \* consumes the evaluator
  /\ e \in DOMAIN evals /\ Fresh(iters, i)
  /\ iters' = With(iters, i, [cfg |-> evals[e], deck |-> DeckOf(evals[e].flop), pos |-> evals[e].from, seenH |-> {}, st |-> "running"])
  /\ evals' = [x \in DOMAIN evals \ {e} |-> evals[x]]
  /\ UNCHANGED ranges

\* ---------------------------------------------------------------- iterators and showdowns
ShowdownOK(c, sd) ==                   \* C03 on a yielded showdown
  LET n == NPlayers(c)
      true == [k \in 1..n |-> Eval7(sd.board \o sd.holes[k])]
  IN /\ Len(sd.idx) = n /\ Len(sd.win) = n
     /\ \A k \in 1..n : sd.idx[k] = true[k] /\ sd.win[k] = (IF k \in Winners(true) THEN 1 ELSE 0)
     /\ sd.wl = Cardinality(Winners(true))
NextSome(i, sd) ==
  /\ i \in DOMAIN iters /\ iters[i].st = "running"
  /\ LET it == iters[i]  c == it.cfg  n == NPlayers(c) IN
     /\ Len(sd.board) = 5 /\ Len(sd.holes) = n
     /\ sd.board[1] = c.flop[1] /\ sd.board[2] = c.flop[2] /\ sd.board[3] = c.flop[3]
     /\ \E ti, ri \in 1..Len(it.deck) : it.deck[ti] = sd.board[4] /\ it.deck[ri] = sd.board[5] /\
          LET p == <<ti - 1, ri - 1>>
              cards == UNION {{sd.holes[k][1], sd.holes[k][2]} : k \in 1..n} \cup {sd.board[j] : j \in 1..5}
          IN /\ IsPos(p) /\ PosLE(it.pos, p) /\ PosLT(p, c.to)
             /\ \A k \in 1..n : \E x \in 1..Len(c.ranges[k]) : Hole(c, k, x) = sd.holes[k]
             /\ Cardinality(cards) = 5 + 2 * n
             /\ Prob(c, [k \in 1..n |-> CHOOSE x \in 1..Len(c.ranges[k]) : Hole(c, k, x) = sd.holes[k]]) = <<sd.pm, sd.pe>>
             /\ IF p = it.pos THEN sd.holes \notin it.seenH
                ELSE DrainedCount(c, it.deck, it.pos, p, Cardinality(it.seenH))
             /\ ShowdownOK(c, sd)
             /\ iters' = [iters EXCEPT ![i] = [@ EXCEPT !.pos = p, !.seenH = (IF p = it.pos THEN it.seenH ELSE {}) \cup {sd.holes}]]
  /\ UNCHANGED <<ranges, evals>>
NextNone(i) ==
  /\ i \in DOMAIN iters
  /\ \/ /\ iters[i].st = "running"
        /\ DrainedCount(iters[i].cfg, iters[i].deck, iters[i].pos, iters[i].cfg.to, Cardinality(iters[i].seenH))
        /\ iters' = [iters EXCEPT ![i] = [@ EXCEPT !.st = "exhausted"]]
     \/ /\ iters[i].st = "exhausted" /\ UNCHANGED iters
  /\ UNCHANGED <<ranges, evals>>

\* system invariants: every live range is a valid range; every iterator stays inside its scope
TypeOK == /\ \A r \in DOMAIN ranges : \A c \in DOMAIN ranges[r] : c[1] < c[2] /\ c[2] <= 51
          /\ \A i \in DOMAIN iters : PosLE(iters[i].cfg.from, iters[i].pos)
=============================================================================
