SPECIFICATION Spec
CONSTANT MaxPlayers = 6
CONSTANT Classes = {1, 2, 3, 4}
INVARIANT PrefixOK
INVARIANT FlagsOK
CHECK_DEADLOCK FALSE
