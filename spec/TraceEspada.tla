----------------------------- MODULE TraceEspada -----------------------------
(***************************************************************************)
(* Trace validation at system level: one sequential trace of mixed public  *)
(* API calls on many live handles (ranges parsed and collected, formatted, *)
(* split, handed to evaluators, scoped, iterated interleaved), each event  *)
(* bound to the Espada action of the same name with the logged arguments   *)
(* and results.  A trace is accepted iff every event is an enabled action. *)
(***************************************************************************)
EXTENDS Espada, Json, IOUtils

Rec == ndJsonDeserialize(IOEnv.TRACE)
VARIABLE l
MapOfT(tr) == LET ks == {<<tr[i][1], tr[i][2]>> : i \in DOMAIN tr} IN
              [c \in ks |-> tr[CHOOSE i \in DOMAIN tr : <<tr[i][1], tr[i][2]>> = c][3]]
TokSeq(ts) == [i \in DOMAIN ts |-> [tok |-> ParseBody(ts[i].body), w |-> ts[i].w]]
Ev == Rec[l]
Is(op) == l <= Len(Rec) /\ Rec[l].op = op /\ l' = l + 1

TInit == SInit /\ l = 1
TParse == Is("parse") /\ Parse(Ev.r, TokSeq(Ev.toks), MapOfT(Ev.contents))
TCollect == Is("collect") /\ Collect(Ev.r, [i \in DOMAIN Ev.items |-> <<<<Ev.items[i][1], Ev.items[i][2]>>, Ev.items[i][3]>>], MapOfT(Ev.contents))
TFormat == Is("fmt") /\ Format(Ev.r, TokSeq(Ev.toks))
TSplit == Is("split") /\ Split(Ev.r, {<<Ev.rps[i][1], Ev.rps[i][2], Ev.rps[i][3], Ev.rps[i][4]>> : i \in DOMAIN Ev.rps}, MapOfT(Ev.orph))
TNew == Is("new") /\ NewEvaluator(Ev.e, <<Ev.flop[1], Ev.flop[2], Ev.flop[3]>>, Ev.rs)
TScope == Is("scope") /\ Scope(Ev.e, <<Ev.from[1], Ev.from[2]>>, <<Ev.to[1], Ev.to[2]>>)
TIter == Is("iter") /\ IntoIter(Ev.e, Ev.i)
TNextSome == Is("next") /\ NextSome(Ev.i, Ev)
TNextNone == Is("none") /\ NextNone(Ev.i)
TNext == TParse \/ TCollect \/ TFormat \/ TSplit \/ TNew \/ TScope \/ TIter \/ TNextSome \/ TNextNone
TSpec == TInit /\ [][TNext]_<<svars, l>>
Accepted == IF TLCGet("stats").diameter - 1 = Len(Rec) THEN TRUE
            ELSE PrintT(<<"REJECTED", TLCGet("stats").diameter>>) /\ FALSE
=============================================================================
