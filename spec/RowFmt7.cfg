CONSTANT L = 7
SPECIFICATION Spec
INVARIANT RoundTrip
INVARIANT Canonical
CHECK_DEADLOCK FALSE
