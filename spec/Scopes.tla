------------------------------- MODULE Scopes -------------------------------
(***************************************************************************)
(* Scopes of the enumeration (C04, C16), property level.                   *)
(*                                                                         *)
(* A run is a sequence of items, each at a position; positions never       *)
(* decrease along a run.  The scoped run for [from, to) is the restriction *)
(* of the unscoped run to the positions p with from <= p < to.             *)
(* A chain is a list of scopes from (0,1) to End = (D-1, D) in which each  *)
(* scope starts where the previous one ended, never steps backwards and    *)
(* names only valid positions.  Theorem (checked by TLC on small decks for *)
(* every chain and every shape of run): the scoped runs of a valid chain,  *)
(* concatenated, are the unscoped run.                                     *)
(***************************************************************************)
EXTENDS Naturals, Integers, Sequences, FiniteSets, TLC, SequencesExt

CONSTANT D                      \* deck size (49 for the real library)
End == <<D - 1, D>>
PosLT(a, b) == a[1] < b[1] \/ (a[1] = b[1] /\ a[2] < b[2])
PosLE(a, b) == a = b \/ PosLT(a, b)
IsPos(p) == p[1] >= 0 /\ p[1] < p[2] /\ p[2] <= D - 1
IsCut(p) == IsPos(p) \/ p = End                 \* a scope boundary: a position or the terminal
Positions == {p \in (0..(D - 2)) \X (1..(D - 1)) : p[1] < p[2]}
Cuts == Positions \cup {End}

InWindow(p, from, to) == PosLE(from, p) /\ PosLT(p, to)
\* restriction of a run (sequence of records with a field pos) to a window
Window(run, from, to) == SelectSeq(run, LAMBDA x : InWindow(x.pos, from, to))
Monotone(run) == \A i \in 1..(Len(run) - 1) : PosLE(run[i].pos, run[i + 1].pos)

\* a chain as a sequence of scopes [from |-> , to |-> ]
ValidChain(ch) ==
  /\ Len(ch) >= 1
  /\ ch[1].from = <<0, 1>> /\ ch[Len(ch)].to = End
  /\ \A i \in 1..Len(ch) : IsCut(ch[i].from) /\ IsCut(ch[i].to) /\ PosLE(ch[i].from, ch[i].to)
  /\ \A i \in 1..(Len(ch) - 1) : ch[i + 1].from = ch[i].to

RECURSIVE Concat(_)
Concat(ss) == IF ss = <<>> THEN <<>> ELSE Head(ss) \o Concat(Tail(ss))
Tiles(run, ch) == Concat([i \in 1..Len(ch) |-> Window(run, ch[i].from, ch[i].to)]) = run
=============================================================================
