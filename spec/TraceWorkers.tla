----------------------------- MODULE TraceWorkers -----------------------------
(***************************************************************************)
(* Trace validation for C15.                                               *)
(*   solo   - an evaluator iterated alone, in a process of its own: the    *)
(*            items it yields, in order                                    *)
(*   inter  - several live iterators on one thread, next() called in the   *)
(*            order sched; results[k] is what call k returned (<<>> = None)*)
(*   thread - an evaluator drained on one of many concurrent threads       *)
(*            (also the runs of a construction storm that differed from   *)
(*            the solo run: thousands of evaluators built and drained on  *)
(*            16 threads at once)                                          *)
(*   bigthread - the same for runs of ~10^5 showdowns, compared through an *)
(*            order-sensitive digest of everything observable (cards,      *)
(*            probability bits, power indexes, winner flags)               *)
(* Allowed iff every iterator, looked at by itself, produced exactly its   *)
(* solo sequence (then None for ever), whatever the others were doing.     *)
(***************************************************************************)
EXTENDS Naturals, Sequences, FiniteSets, TLC, SequencesExt, Json, IOUtils

Rec == ndJsonDeserialize(IOEnv.TRACE)
VARIABLE l
\* the k-th result of an iterator whose solo sequence is s: s[k], then None
Solo(s, k) == IF k <= Len(s) THEN s[k] ELSE <<>>
InterOK(e) ==
  /\ Len(e.results) = Len(e.sched)
  /\ \A j \in 1..Len(e.ids) :
       LET calls == SelectSeq([k \in 1..Len(e.sched) |-> k], LAMBDA k : e.sched[k] = j)   \* the calls made on iterator j
           solo == Rec[e.ids[j]].items
       IN \A c \in 1..Len(calls) : e.results[calls[c]] = Solo(solo, c)
ThreadOK(e) == e.items = Rec[e.id].items /\ e.after = 0
Allowed(e) ==
  CASE e.op = "solo" -> e.outcome = "ok"
    [] e.op = "inter" -> InterOK(e)
    [] e.op = "thread" -> ThreadOK(e)
    [] e.op = "bigthread" -> e.digest = Rec[e.id].digest /\ e.digest[3] > 0      \* long concurrent run: same digest as alone
    [] e.op = "storm" -> e.runs > 0          \* summary of a construction storm; each differing run is a thread event
    [] e.op = "sendsync" -> TRUE
    [] OTHER -> FALSE

K == 64
Init == l = <<"root">>
Next == \/ l = <<"root">> /\ \E k \in 0..(K - 1) : l' = <<"shard", k>>
        \/ l[1] = "shard" /\ \E i \in 1..Len(Rec) : i % K = l[2] /\ l' = <<"event", i>>
Spec == Init /\ [][Next]_l
EventOK == l[1] = "event" => (Allowed(Rec[l[2]]) \/ PrintT(<<"BAD", l[2]>>))
=============================================================================
