----------------------------- MODULE RangeBuild -----------------------------
(***************************************************************************)
(* C17, construction histories.  The abstract range is the state; a        *)
(* history is a sequence of operations, each inserting one combo or all    *)
(* combos of one token with one weight (a later insert overwrites).  The   *)
(* text of a range is a function of the state alone (RangeFmt!CanonRuns +  *)
(* leftovers), so any two histories reaching the same state must print     *)
(* identically.  TLC enumerates every history up to MaxDepth over a small  *)
(* universe - two adjacent suited rank pairs under the ace, two weights -  *)
(* and prints it with the state it reaches; the harness executes each one  *)
(* for real (parse of the joined tokens, collect(), insert-and-overwrite). *)
(***************************************************************************)
EXTENDS RangeFmt, Json
CONSTANT MaxDepth
W1 == One
W2 == 1056964608        \* 0.5
Toks == <<[kind |-> "single", rp |-> Kick("S", 0, 1)], [kind |-> "single", rp |-> Kick("S", 0, 2)],
          [kind |-> "plus", rp |-> Kick("S", 0, 2)], [kind |-> "span", rp |-> Kick("S", 0, 1), e |-> 2]>>
CombosU == Combos(Kick("S", 0, 1)) \cup Combos(Kick("S", 0, 2))
Ops == {[tok |-> [kind |-> "cards", c |-> c], w |-> w] : c \in CombosU, w \in {W1, W2}}
       \cup {[tok |-> Toks[i], w |-> w] : i \in 1..Len(Toks), w \in {W1, W2}}
VARIABLES m, hist
Init == m = Empty /\ hist = <<>>
Apply(op) == /\ Len(hist) < MaxDepth
             /\ m' = Put(m, Denote(op.tok), op.w)
             /\ hist' = Append(hist, op)
Next == \E op \in Ops : Apply(op)
Spec == Init /\ [][Next]_<<m, hist>>
\* the state is what the history denotes when read left to right
StateIsFold == m = RangeOf(hist, Empty)
\* the rank-pair part of the text has one token per maximal run and nothing mergeable
NoMergeable == LET c == CanonRuns(m) IN \A i \in 1..(Len(c) - 1) : c[i].cs \cap c[i + 1].cs = {}
Emit == hist # <<>> => PrintT("HIST " \o ToJson([i \in 1..Len(hist) |-> [b |-> TokText(hist[i].tok), w |-> hist[i].w]]))
=============================================================================
