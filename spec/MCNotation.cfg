SPECIFICATION Spec
INVARIANT LastWriterWins
CHECK_DEADLOCK FALSE
