CONSTANT L = 8
SPECIFICATION Spec
INVARIANT RoundTrip
INVARIANT Canonical
CHECK_DEADLOCK FALSE
