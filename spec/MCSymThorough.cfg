CONSTANT NPl = 2
CONSTANT PoolSize = 6
CONSTANT NFlops = 2
SPECIFICATION Spec
INVARIANT Symmetric
CHECK_DEADLOCK FALSE
