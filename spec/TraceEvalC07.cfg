SPECIFICATION Spec
INVARIANT EventOK07
CHECK_DEADLOCK FALSE
