----------------------------- MODULE ParserShape -----------------------------
(***************************************************************************)
(* Implementation-shaped model of the text parsers (C09, C10):             *)
(* card.rs, card_pair.rs, hand_range_token.rs, hand_range.rs.              *)
(*                                                                         *)
(* A string is a sequence of characters with UTF-8 widths; the code tests  *)
(* lengths in BYTES and slices at BYTE offsets, which panics when an       *)
(* offset is not a character boundary.  Multi-byte characters are named    *)
(* "U2", "U3", "U4" (2, 3, 4 bytes); "NL" is a newline.                    *)
(* AsFound = TRUE is the code at the pinned commit with its named          *)
(* deviations: SlicePanic (Card, CardPair), RangePanic (reversed pocket    *)
(* span, 'XYs+' with X below Y), UnwrapPanic ('2Ys+'), weights above 1     *)
(* and equal-card pairs accepted.  AsFound = FALSE is the repaired code.   *)
(***************************************************************************)
EXTENDS Naturals, Integers, Sequences, FiniteSets, TLC, SequencesExt, FiniteSetsExt
CONSTANT AsFound
RankCh == <<"A", "K", "Q", "J", "T", "9", "8", "7", "6", "5", "4", "3", "2">>
RankCode(c) == IF \E i \in 1..13 : RankCh[i] = c THEN (CHOOSE i \in 1..13 : RankCh[i] = c) - 1 ELSE -1
SuitCh == <<"s", "h", "d", "c">>
SuitCode(c) == IF \E i \in 1..4 : SuitCh[i] = c THEN (CHOOSE i \in 1..4 : SuitCh[i] = c) - 1 ELSE -1
IsRank(c) == RankCode(c) >= 0
IsSuit(c) == SuitCode(c) >= 0
Width(c) == CASE c = "U2" -> 2 [] c = "U3" -> 3 [] c = "U4" -> 4 [] OTHER -> 1
ByteLen(s) == FoldSeq(LAMBDA c, acc : acc + Width(c), 0, s)
\* byte offset -> number of whole characters before it, or -1 when the offset is inside a character
Boundary(s, off) ==
  LET RECURSIVE Walk(_, _)
      Walk(i, b) == IF b = off THEN i - 1 ELSE IF b > off \/ i > Len(s) THEN -1 ELSE Walk(i + 1, b + Width(s[i]))
  IN Walk(1, 0)
Slice(s, a, b) == LET i == Boundary(s, a)  j == Boundary(s, b)
                  IN IF i < 0 \/ j < 0 THEN [bad |-> TRUE, v |-> <<>>] ELSE [bad |-> FALSE, v |-> SubSeq(s, i + 1, j)]
Err == [r |-> "err"]
Panic == [r |-> "panic"]
Ok(v) == [r |-> "ok", v |-> v]

ParseRank(s) == IF s # <<>> /\ IsRank(s[1]) THEN Ok(RankCode(s[1])) ELSE Err          \* chars().nth(0)
ParseSuit(s) == IF s # <<>> /\ IsSuit(s[1]) THEN Ok(SuitCode(s[1])) ELSE Err
ParseCard(s) ==
  IF ByteLen(s) # 2 THEN Err
  ELSE IF AsFound THEN
         LET a == Slice(s, 0, 1)  b == Slice(s, 1, 2) IN
         IF a.bad \/ b.bad THEN Panic
         ELSE IF ParseRank(a.v).r = "ok" /\ ParseSuit(b.v).r = "ok" THEN Ok(4 * ParseRank(a.v).v + ParseSuit(b.v).v) ELSE Err
       ELSE IF Len(s) = 2 /\ IsRank(s[1]) /\ IsSuit(s[2]) THEN Ok(4 * RankCode(s[1]) + SuitCode(s[2])) ELSE Err
ParseCardPair(s) ==
  IF ByteLen(s) # 4 THEN Err
  ELSE IF ~AsFound /\ Boundary(s, 2) < 0 THEN Err
  ELSE LET a == Slice(s, 0, 2)  b == Slice(s, 2, 4)
       IN IF a.bad \/ b.bad THEN Panic
          ELSE LET x == ParseCard(a.v)  y == ParseCard(b.v) IN
               IF x.r = "panic" \/ y.r = "panic" THEN Panic
               ELSE IF x.r = "ok" /\ y.r = "ok" THEN Ok(<<Min({x.v, y.v}), Max({x.v, y.v})>>) ELSE Err

\* weight suffix: as found (:[01](\.[0-9]+)?)?   repaired (:(0(\.[0-9]+)?|1(\.0+)?))?
Digit(c) == c \in {"0", "1", "2", "3", "4", "5", "6", "7", "8", "9"}
WeightSuffix(s) ==
  \/ s = <<>>
  \/ /\ Len(s) = 2 /\ s[1] = ":" /\ s[2] \in {"0", "1"}
  \/ /\ Len(s) >= 4 /\ s[1] = ":" /\ s[2] \in {"0", "1"} /\ s[3] = "." /\ \A i \in 4..Len(s) : Digit(s[i])
     /\ (AsFound \/ s[2] = "0" \/ \A i \in 4..Len(s) : s[i] = "0")
\* does the accepted suffix denote a weight above 1 ?  (only possible as found: ':1.x' with a non-zero digit)
SuffixAboveOne(s) == Len(s) >= 4 /\ s[2] = "1" /\ \E i \in 4..Len(s) : s[i] # "0"
Rest(s, n) == SubSeq(s, n + 1, Len(s))
RR(s, i) == Len(s) >= i /\ IsRank(s[i])
SOc(s, i) == Len(s) >= i /\ s[i] \in {"s", "o"}
Is(s, i, ch) == Len(s) >= i /\ s[i] = ch
\* the seven shapes, in the order the code tries them
Token(s) ==
  IF RR(s, 1) /\ RR(s, 2) /\ Is(s, 3, "-") /\ RR(s, 4) /\ RR(s, 5) /\ WeightSuffix(Rest(s, 5)) /\ s[1] = s[2] /\ s[4] = s[5]
       /\ (AsFound \/ RankCode(s[1]) <= RankCode(s[4]))
    THEN Ok([k |-> "pspan", a |-> RankCode(s[1]), b |-> RankCode(s[4]), sfx |-> Rest(s, 5)])
  ELSE IF RR(s, 1) /\ RR(s, 2) /\ SOc(s, 3) /\ Is(s, 4, "-") /\ RR(s, 5) /\ RR(s, 6) /\ SOc(s, 7) /\ WeightSuffix(Rest(s, 7))
          /\ s[1] = s[5] /\ s[2] # s[6] /\ s[3] = s[7]
          /\ RankCode(s[1]) < RankCode(s[2]) /\ RankCode(s[2]) < RankCode(s[6])
    THEN Ok([k |-> "kspan", h |-> RankCode(s[1]), a |-> RankCode(s[2]), b |-> RankCode(s[6]), sfx |-> Rest(s, 7)])
  ELSE IF RR(s, 1) /\ RR(s, 2) /\ Is(s, 3, "+") /\ WeightSuffix(Rest(s, 3)) /\ s[1] = s[2]
    THEN Ok([k |-> "pplus", b |-> RankCode(s[1]), sfx |-> Rest(s, 3)])
  ELSE IF RR(s, 1) /\ RR(s, 2) /\ SOc(s, 3) /\ Is(s, 4, "+") /\ WeightSuffix(Rest(s, 4)) /\ s[1] # s[2]
    THEN IF ~AsFound /\ RankCode(s[1]) > RankCode(s[2]) THEN Err
         ELSE Ok([k |-> "kplus", h |-> RankCode(s[1]), b |-> RankCode(s[2]), sfx |-> Rest(s, 4)])
  ELSE IF RR(s, 1) /\ RR(s, 2) /\ WeightSuffix(Rest(s, 2)) /\ s[1] = s[2]
    THEN Ok([k |-> "pocket", a |-> RankCode(s[1]), sfx |-> Rest(s, 2)])
  ELSE IF RR(s, 1) /\ RR(s, 2) /\ SOc(s, 3) /\ WeightSuffix(Rest(s, 3)) /\ s[1] # s[2]
    THEN Ok([k |-> "kicker", h |-> RankCode(s[1]), a |-> RankCode(s[2]), sfx |-> Rest(s, 3)])
  ELSE IF RR(s, 1) /\ Len(s) >= 4 /\ IsSuit(s[2]) /\ RR(s, 3) /\ IsSuit(s[4]) /\ WeightSuffix(Rest(s, 4))
    THEN LET cp == ParseCardPair(SubSeq(s, 1, 4)) IN
         IF cp.r = "ok" /\ ~AsFound /\ cp.v[1] = cp.v[2] THEN Err
         ELSE IF cp.r = "ok" THEN Ok([k |-> "cards", c |-> cp.v, sfx |-> Rest(s, 4)]) ELSE cp
  ELSE Err
\* RANKS[a..=b]: fine when a <= b + 1, panics otherwise
SliceRanks(a, b) == IF a <= b + 1 THEN "ok" ELSE "panic"
Expand(t) ==
  IF t.r # "ok" THEN "na"
  ELSE CASE t.v.k = "pspan" -> SliceRanks(t.v.a, t.v.b)
         [] t.v.k = "kspan" -> SliceRanks(t.v.a, t.v.b)
         [] t.v.k = "pplus" -> SliceRanks(0, t.v.b)
         [] t.v.k = "kplus" -> IF t.v.h = 12 THEN "panic" ELSE SliceRanks(t.v.h + 1, t.v.b)
         [] OTHER -> "ok"
\* a value the parser lets through that C10 forbids: weight above 1, or a pair of equal cards
Invalid(t) == t.r = "ok" /\ (SuffixAboveOne(t.v.sfx) \/ (t.v.k = "cards" /\ t.v.c[1] = t.v.c[2]))
Outcomes(s) == [card |-> ParseCard(s).r, pair |-> ParseCardPair(s).r, token |-> Token(s).r, expand |-> Expand(Token(s))]
Total(s) == LET o == Outcomes(s) IN o.card # "panic" /\ o.pair # "panic" /\ o.token # "panic" /\ o.expand # "panic"
Valid(s) == ~Invalid(Token(s))
=============================================================================
