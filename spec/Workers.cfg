CONSTANT N = 3
CONSTANT Calls = 3
SPECIFICATION Spec
PROPERTY OneMoves
INVARIANT Emit
INVARIANT Count
CHECK_DEADLOCK FALSE
