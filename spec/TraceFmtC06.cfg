SPECIFICATION Spec
INVARIANT EventOK06
CHECK_DEADLOCK FALSE
