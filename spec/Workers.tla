------------------------------- MODULE Workers -------------------------------
(***************************************************************************)
(* C15: evaluator instances are independent.                               *)
(*                                                                         *)
(* N live iterators, no shared variable: the state is a function from      *)
(* instance to that instance's own position in its own solo sequence.  A   *)
(* step is one next() call on one instance; it advances that instance and  *)
(* leaves every other instance untouched, and what it returns is the next  *)
(* element of that instance's solo sequence (None once it is exhausted).   *)
(* Every behaviour of this module is one interleaving of next() calls; the *)
(* history variable sched names it.  TLC enumerates them all (for N        *)
(* instances x Calls calls each) and prints each complete schedule, which  *)
(* the conformance harness replays against live real iterators.            *)
(***************************************************************************)
EXTENDS Naturals, Sequences, FiniteSets, TLC

CONSTANTS N, Calls
VARIABLES at, sched            \* at[i]: number of next() calls made on instance i so far
vars == <<at, sched>>
Init == at = [i \in 1..N |-> 0] /\ sched = <<>>
Call(i) == /\ at[i] < Calls
           /\ at' = [at EXCEPT ![i] = @ + 1]
           /\ sched' = Append(sched, i)
Next == \E i \in 1..N : Call(i)
Spec == Init /\ [][Next]_vars

\* independence, as an action property: a call moves exactly one instance
OneMoves == [][\E i \in 1..N : at'[i] = at[i] + 1 /\ \A j \in 1..N : j # i => at'[j] = at[j]]_vars
\* what call number k on instance i returns is a function of (i, k) alone: Solo(i)[k]
Complete == \A i \in 1..N : at[i] = Calls
Emit == Complete => PrintT(<<"SCHED", sched>>)
Count == Complete => Len(sched) = N * Calls
=============================================================================
