---------------------------- MODULE PosWalkProof ----------------------------
(***************************************************************************)
(* The position walk of the enumeration (turn index, river index) for      *)
(* EVERY deck size D >= 2, proved with TLAPS (optional extra; the Apalache *)
(* module apalache/PosWalk checks the same invariant for D in 3..60, TLC   *)
(* checks the walk inside MCFlop on small decks).                          *)
(*   TypeOK/Safety : the pair is always a position (turn < river < D) or   *)
(*                   the terminal (D-1, D);                                *)
(*   StepIsSucc    : every non-stuttering step moves to the IMMEDIATE      *)
(*                   successor in the lexicographic order - strictly       *)
(*                   forwards, and no position or terminal lies strictly   *)
(*                   between the old and the new pair.                     *)
(* Hence the walk meets every position exactly once, in order, before the  *)
(* terminal: the order in which FlopEnum yields boards (C02, C04).          *)
(***************************************************************************)
EXTENDS Integers, TLAPS

CONSTANT D
ASSUME DType == D \in Nat /\ D >= 2

VARIABLES turn, river
vars == <<turn, river>>

IsPosP(t, r) == t \in Int /\ r \in Int /\ 0 <= t /\ t < r /\ r <= D - 1
IsEndP(t, r) == t = D - 1 /\ r = D
LT(t1, r1, t2, r2) == t1 < t2 \/ (t1 = t2 /\ r1 < r2)

Inv == IsPosP(turn, river) \/ IsEndP(turn, river)
Init == turn = 0 /\ river = 1
Step == /\ ~IsEndP(turn, river)
        /\ IF river < D - 1 THEN river' = river + 1 /\ turn' = turn
                            ELSE turn' = turn + 1 /\ river' = turn + 2
Spec == Init /\ [][Step]_vars

LEMMA InitInv == Init => Inv
  BY DType DEF Init, Inv, IsPosP, IsEndP

LEMMA StepInv == Inv /\ [Step]_vars => Inv'
  BY DType DEF Inv, Step, vars, IsPosP, IsEndP

THEOREM Safety == Spec => []Inv
  BY InitInv, StepInv, PTL DEF Spec

THEOREM StepIsSucc ==
  ASSUME Inv, Step
  PROVE  /\ LT(turn, river, turn', river')
         /\ \A t, r \in Int : (IsPosP(t, r) \/ IsEndP(t, r))
                              => ~(LT(turn, river, t, r) /\ LT(t, r, turn', river'))
  BY DType DEF Inv, Step, IsPosP, IsEndP, LT
=============================================================================
