------------------------------ MODULE LinOrder ------------------------------
(***************************************************************************)
(* The linearisation used by TilingLemma: on cut points (turn, river) with *)
(* 0 <= river <= D the map Lin(p) = turn * (D + 1) + river is strictly     *)
(* monotone for the lexicographic order Scopes!PosLT, for EVERY deck size. *)
(***************************************************************************)
EXTENDS Integers, TLAPS

PosLT(a, b) == a[1] < b[1] \/ (a[1] = b[1] /\ a[2] < b[2])
Lin(D, p) == p[1] * (D + 1) + p[2]

THEOREM LinMono ==
  ASSUME NEW D \in Nat,
         NEW t1 \in Nat, NEW r1 \in 0..D, NEW t2 \in Nat, NEW r2 \in 0..D
  PROVE  PosLT(<<t1, r1>>, <<t2, r2>>) <=> Lin(D, <<t1, r1>>) < Lin(D, <<t2, r2>>)
<1> DEFINE K == D + 1
<1>0. K \in Nat /\ K > 0 /\ r1 < K /\ r2 < K /\ r1 >= 0 /\ r2 >= 0   OBVIOUS
<1>1. ASSUME t1 < t2 PROVE t1 * K + r1 < t2 * K + r2
  <2>1. t1 + 1 <= t2   BY <1>1
  <2>2. (t1 + 1) * K <= t2 * K   BY <2>1, <1>0
  <2>3. (t1 + 1) * K = t1 * K + K   BY <1>0
  <2>4. t1 * K \in Int /\ t2 * K \in Int   BY <1>0
  <2> QED BY <2>2, <2>3, <2>4, <1>0
<1>2. ASSUME t2 < t1 PROVE t2 * K + r2 < t1 * K + r1
  <2>1. t2 + 1 <= t1   BY <1>2
  <2>2. (t2 + 1) * K <= t1 * K   BY <2>1, <1>0
  <2>3. (t2 + 1) * K = t2 * K + K   BY <1>0
  <2>4. t1 * K \in Int /\ t2 * K \in Int   BY <1>0
  <2> QED BY <2>2, <2>3, <2>4, <1>0
<1>3. t1 * K \in Int /\ t2 * K \in Int   BY <1>0
<1>4. t1 < t2 \/ t2 < t1 \/ t1 = t2   OBVIOUS
<1> HIDE DEF K
<1> QED BY <1>1, <1>2, <1>3, <1>4 DEF PosLT, Lin, K
=============================================================================
