---------------------------- MODULE ShowdownPass ----------------------------
(***************************************************************************)
(* The single pass of Showdown::new (module Showdown, C03) for ANY number  *)
(* of players and any strength classes up to the sentinel 65535, proved    *)
(* with TLAPS (optional extra; TLC decides the same invariant for every    *)
(* class vector of up to MaxPlayers players over a small class domain).    *)
(* Inv is inductive: after visiting players 1..i-1 the winner set is       *)
(* exactly the arg-min of the classes seen so far, and `strongest` is that *)
(* minimum (or the sentinel while nobody has been visited).                *)
(***************************************************************************)
EXTENDS Integers, Sequences, TLAPS

CONSTANT Players                       \* the class vector, fixed for a run
Sentinel == 65535
ASSUME PlayersType == Players \in Seq(1..Sentinel)

VARIABLES i, strongest, winners
vars == <<i, strongest, winners>>
N == Len(Players)

Init == i = 1 /\ strongest = Sentinel /\ winners = {}
Visit == /\ i <= N
         /\ IF Players[i] <= strongest
            THEN /\ strongest' = Players[i]
                 /\ winners' = (IF Players[i] < strongest THEN {} ELSE winners) \cup {i}
            ELSE UNCHANGED <<strongest, winners>>
         /\ i' = i + 1
Spec == Init /\ [][Visit]_vars

WinnersUpTo(m) == {k \in 1..m : \A j \in 1..m : Players[k] <= Players[j]}

Inv == /\ i \in 1..(N + 1)
       /\ strongest \in 1..Sentinel
       /\ winners = WinnersUpTo(i - 1)
       /\ \A j \in 1..(i - 1) : strongest <= Players[j]
       /\ i > 1 => \E k \in 1..(i - 1) : Players[k] = strongest
       /\ i = 1 => strongest = Sentinel

LEMMA Facts == N \in Nat /\ \A k \in 1..N : Players[k] \in 1..Sentinel
  BY PlayersType DEF N

LEMMA InitInv == Init => Inv
  BY Facts DEF Init, Inv, WinnersUpTo, Sentinel

LEMMA StepInv == Inv /\ [Visit]_vars => Inv'
<1> SUFFICES ASSUME Inv, [Visit]_vars PROVE Inv'
  OBVIOUS
<1>1. CASE UNCHANGED vars
  BY <1>1 DEF Inv, vars, WinnersUpTo
<1>2. CASE Visit
  <2>0. i \in 1..N /\ i' = i + 1 /\ Players[i] \in 1..Sentinel /\ N \in Nat
    BY <1>2, Facts DEF Visit, Inv
  <2>1. CASE Players[i] < strongest
    <3>1. strongest' = Players[i] /\ winners' = {i}
      BY <1>2, <2>1, <2>0 DEF Visit, Inv
    <3>2. \A j \in 1..(i - 1) : Players[i] < Players[j]
      BY <2>1, <2>0, Facts DEF Inv
    <3>3. WinnersUpTo(i) = {i}
      BY <3>2, <2>0, Facts DEF WinnersUpTo
    <3> QED BY <3>1, <3>2, <3>3, <2>0, Facts DEF Inv
  <2>2. CASE Players[i] = strongest
    <3>1. strongest' = strongest /\ winners' = winners \cup {i}
      BY <1>2, <2>2, <2>0 DEF Visit, Inv
    <3>2. WinnersUpTo(i) = WinnersUpTo(i - 1) \cup {i}
      <4>1. \A j \in 1..(i - 1) : Players[i] <= Players[j]   BY <2>2 DEF Inv
      <4>2. \A k \in WinnersUpTo(i - 1) : Players[k] <= Players[i]
        <5>1. CASE i = 1   BY <5>1, <2>0 DEF WinnersUpTo
        <5>2. CASE i > 1
          <6>1. PICK m \in 1..(i - 1) : Players[m] = strongest   BY <5>2 DEF Inv
          <6> QED BY <6>1, <2>2, <2>0 DEF WinnersUpTo
        <5> QED BY <5>1, <5>2, <2>0
      <4>3. \A k \in 1..(i - 1) : k \in WinnersUpTo(i) => k \in WinnersUpTo(i - 1)
        BY <2>0 DEF WinnersUpTo
      <4>4. i \in WinnersUpTo(i)   BY <4>1, <2>0, Facts DEF WinnersUpTo
      <4>5. \A k \in WinnersUpTo(i - 1) : k \in WinnersUpTo(i)
        BY <4>2, <2>0, Facts DEF WinnersUpTo
      <4>6. WinnersUpTo(i) \subseteq 1..i   BY DEF WinnersUpTo
      <4> QED BY <4>3, <4>4, <4>5, <4>6, <2>0
    <3> QED BY <3>1, <3>2, <2>2, <2>0, Facts DEF Inv
  <2>3. CASE Players[i] > strongest
    <3>1. strongest' = strongest /\ winners' = winners
      BY <1>2, <2>3, <2>0 DEF Visit, Inv
    <3>2. i > 1   BY <2>3, <2>0 DEF Inv, Sentinel
    <3>3. PICK m \in 1..(i - 1) : Players[m] = strongest   BY <3>2 DEF Inv
    <3>4. WinnersUpTo(i) = WinnersUpTo(i - 1)
      <4>1. ~(i \in WinnersUpTo(i))   BY <3>3, <2>3, <2>0, Facts DEF WinnersUpTo
      <4>2. \A k \in 1..(i - 1) : k \in WinnersUpTo(i) => k \in WinnersUpTo(i - 1)
        BY <2>0 DEF WinnersUpTo
      <4>3. \A k \in WinnersUpTo(i - 1) : Players[k] <= Players[i]
        BY <3>3, <2>3, <2>0, Facts DEF WinnersUpTo
      <4>4. \A k \in WinnersUpTo(i - 1) : k \in WinnersUpTo(i)
        BY <4>3, <2>0, Facts DEF WinnersUpTo
      <4>5. WinnersUpTo(i) \subseteq 1..i   BY DEF WinnersUpTo
      <4> QED BY <4>1, <4>2, <4>4, <4>5, <2>0
    <3> QED BY <3>1, <3>2, <3>3, <3>4, <2>3, <2>0, Facts DEF Inv
  <2> QED BY <2>1, <2>2, <2>3, <2>0 DEF Inv
<1> QED BY <1>1, <1>2

THEOREM Safety == Spec => []Inv
  BY InitInv, StepInv, PTL DEF Spec

\* at the end of the pass the flags are the property-level winners
THEOREM Final == Inv /\ i = N + 1 => winners = {k \in 1..N : \A j \in 1..N : Players[k] <= Players[j]}
  BY Facts DEF Inv, WinnersUpTo
=============================================================================
