---------------------------- MODULE TilingLemma ----------------------------
(***************************************************************************)
(* The tiling lemma behind C04 and C16, for chains of ANY length over ANY  *)
(* deck size, proved with TLAPS (optional extra: nothing in the manifest   *)
(* depends on it; TLC decides the same statement for every chain over a    *)
(* small deck in MCScopes).                                                *)
(*                                                                         *)
(* Positions are linearised (module LinOrder proves that the map          *)
(* (t, r) |-> t * (D + 1) + r is strictly monotone for the lexicographic   *)
(* order Scopes!PosLT, for every deck size D), so a chain of n scopes is a *)
(* function c on 0..n of integer cut points: scope i is the half-open      *)
(* window [c[i-1], c[i]).                                                  *)
(* ValidChain says: c[0] = lo, c[n] = hi, c never steps backwards.         *)
(*   Cover  : every p with lo <= p < hi lies in some window;               *)
(*   Disjoint: no p lies in two windows.                                   *)
(* Together: each position of the unscoped run is produced by exactly one  *)
(* scope of the chain, which with monotone runs gives Scopes!Tiles.        *)
(***************************************************************************)
EXTENDS Integers, NaturalsInduction, TLAPS

CONSTANTS n, c, lo, hi
ASSUME NType  == n \in Nat
ASSUME CType  == c \in [0..n -> Int]
ASSUME Ends   == c[0] = lo /\ c[n] = hi
ASSUME NoBack == \A i \in 0..(n - 1) : c[i] <= c[i + 1]

InWin(p, i) == c[i - 1] <= p /\ p < c[i]          \* window i \in 1..n

LEMMA Mono == \A j \in Nat : \A i \in Nat : i <= j /\ j <= n => c[i] <= c[j]
<1> DEFINE Q(j) == \A i \in Nat : i <= j /\ j <= n => c[i] <= c[j]
<1>1. Q(0)
  BY NType, CType
<1>2. \A j \in Nat : Q(j) => Q(j + 1)
  <2> SUFFICES ASSUME NEW j \in Nat, Q(j), NEW i \in Nat, i <= j + 1, j + 1 <= n
               PROVE  c[i] <= c[j + 1]
    OBVIOUS
  <2>1. CASE i = j + 1
    BY <2>1, NType, CType
  <2>2. CASE i <= j
    <3>1. c[i] <= c[j]          BY <2>2, NType
    <3>2. c[j] <= c[j + 1]      BY NoBack, NType
    <3>3. c[i] \in Int /\ c[j] \in Int /\ c[j + 1] \in Int   BY CType, NType, <2>2
    <3> QED BY <3>1, <3>2, <3>3
  <2> QED BY <2>1, <2>2
<1> HIDE DEF Q
<1>3. \A j \in Nat : Q(j)
  BY <1>1, <1>2, NatInduction
<1> QED BY <1>3 DEF Q

THEOREM Cover == \A p \in Int : lo <= p /\ p < hi => \E i \in 1..n : InWin(p, i)
<1> SUFFICES ASSUME NEW p \in Int, lo <= p, p < hi PROVE \E i \in 1..n : InWin(p, i)
  OBVIOUS
<1> DEFINE R(k) == k <= n /\ p < c[k] => \E i \in 1..k : InWin(p, i)
<1>1. R(0)
  BY Ends, CType, NType DEF InWin
<1>2. \A k \in Nat : R(k) => R(k + 1)
  <2> SUFFICES ASSUME NEW k \in Nat, R(k), k + 1 <= n, p < c[k + 1]
               PROVE  \E i \in 1..(k + 1) : InWin(p, i)
    OBVIOUS
  <2>0. c[k] \in Int /\ c[k + 1] \in Int   BY CType, NType
  <2>1. CASE p < c[k]
    <3>1. PICK i \in 1..k : InWin(p, i)   BY <2>1, NType
    <3> QED BY <3>1
  <2>2. CASE c[k] <= p
    <3>1. InWin(p, k + 1)   BY <2>2, <2>0 DEF InWin
    <3> QED BY <3>1
  <2> QED BY <2>0, <2>1, <2>2
<1> HIDE DEF R
<1>3. \A k \in Nat : R(k)
  BY <1>1, <1>2, NatInduction
<1>4. R(n)   BY <1>3, NType
<1> QED BY <1>4, Ends, NType DEF R

LEMMA Apart == \A p \in Int : \A i, j \in 1..n : InWin(p, i) /\ InWin(p, j) /\ i < j => FALSE
<1> SUFFICES ASSUME NEW p \in Int, NEW i \in 1..n, NEW j \in 1..n, InWin(p, i), InWin(p, j), i < j
             PROVE  FALSE
  OBVIOUS
<1>1. i \in Nat /\ j - 1 \in Nat /\ i <= j - 1 /\ j - 1 <= n   BY NType
<1>2. c[i] <= c[j - 1]   BY <1>1, Mono
<1>3. c[i] \in Int /\ c[j - 1] \in Int   BY CType, NType
<1> QED BY <1>2, <1>3 DEF InWin

THEOREM Disjoint == \A p \in Int : \A i, j \in 1..n : InWin(p, i) /\ InWin(p, j) => i = j
<1> SUFFICES ASSUME NEW p \in Int, NEW i \in 1..n, NEW j \in 1..n, InWin(p, i), InWin(p, j)
             PROVE  i = j
  OBVIOUS
<1>1. ~(i < j)   BY Apart
<1>2. ~(j < i)   BY Apart
<1> QED BY <1>1, <1>2, NType
=============================================================================
