SPECIFICATION Spec
INVARIANT EventOK01
CHECK_DEADLOCK FALSE
