SPECIFICATION Spec
INVARIANT Inv
INVARIANT Emit
CHECK_DEADLOCK FALSE
