CONSTANTS
  AsFound = TRUE
  MaxLen = 4
SPECIFICATION Spec
INVARIANT NoPanic
INVARIANT OnlyValid
CHECK_DEADLOCK FALSE
