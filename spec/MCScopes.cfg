CONSTANT D = 4
CONSTANT MaxCuts = 4
SPECIFICATION Spec
INVARIANT TilingTheorem
CHECK_DEADLOCK FALSE
