CONSTANT N = 12
SPECIFICATION Spec
INVARIANT Agree
CHECK_DEADLOCK FALSE
