------------------------------ MODULE RangeFmt ------------------------------
(***************************************************************************)
(* Property-level specification of HandRange::rank_pairs(),                *)
(* orphan_card_pairs() and to_string() (C06, C12, C17).                    *)
(*                                                                         *)
(* A range is a function m from combos to weights.  A rank pair is         *)
(* COMPLETE in m with weight w iff all of its 6 / 4 / 12 combos are in m   *)
(* with that same weight.  Rows: the 13 pocket pairs from aces down; for   *)
(* each high card A..3 the suited and then the offsuit kickers from the    *)
(* next rank down to the deuce.  A RUN is a maximal stretch of adjacent    *)
(* cells of one row that are complete with one weight.  The text of a      *)
(* range is: one token per run, rows in the stated order - each token      *)
(* denoting exactly the combos of its run, with the run's weight - then    *)
(* the leftover combos (those of no complete rank pair) as single-combo    *)
(* tokens.  How a run is spelled ('X+', 'X-Y', single) and how leftovers   *)
(* are ordered is not fixed here.                                          *)
(***************************************************************************)
EXTENDS Notation

CombosTab == [rp \in RPs |-> Combos(rp)]
FirstCombo == [rp \in RPs |-> CHOOSE c \in CombosTab[rp] : \A d \in CombosTab[rp] : c[1] < d[1] \/ (c[1] = d[1] /\ c[2] <= d[2])]
\* weight cell of a rank pair: <<w>> when complete with weight w, <<>> otherwise
Cell(m, rp) ==
  LET cs == CombosTab[rp]  c0 == FirstCombo[rp] IN
  IF c0 \in DOMAIN m /\ cs \subseteq DOMAIN m /\ \A x \in cs : m[x] = m[c0] THEN <<m[c0]>> ELSE <<>>
Complete(m) == {rp \in RPs : Cell(m, rp) # <<>>}
Covered(m) == UNION {CombosTab[rp] : rp \in Complete(m)}
Orphans(m) == DOMAIN m \ Covered(m)

PocketRow == [i \in 1..13 |-> Pocket(i - 1)]
KickRow(t, h) == [i \in 1..(12 - h) |-> Kick(t, h, h + i)]
\* rows in printing order
RowSeq == <<PocketRow>> \o [n \in 1..24 |-> KickRow((IF n % 2 = 1 THEN "S" ELSE "O"), (n - 1) \div 2)]

\* maximal runs of one row: sequence of [s, e, w]
RunsOf(m, row) ==
  LET L == Len(row)
      cell == [i \in 1..L |-> Cell(m, row[i])]
      starts == {i \in 1..L : cell[i] # <<>> /\ (IF i = 1 THEN TRUE ELSE cell[i - 1] # cell[i])}
      EndOf(i) == CHOOSE j \in i..L : (\A q \in i..j : cell[q] = cell[i]) /\ (IF j = L THEN TRUE ELSE cell[j + 1] # cell[i])
      ss == SetToSortSeq(starts, <)
  IN [n \in 1..Len(ss) |-> [s |-> ss[n], e |-> EndOf(ss[n]), w |-> cell[ss[n]][1]]]
RunCombos(row, r) == UNION {CombosTab[row[i]] : i \in r.s..r.e}
\* the spelling the implementation uses (implementation level, compared only for drift)
Spelling(row, r) ==
  IF r.s = r.e THEN [kind |-> "single", rp |-> row[r.s]]
  ELSE IF r.s = 1 THEN [kind |-> "plus", rp |-> row[r.e]]
  ELSE [kind |-> "span", rp |-> row[r.s], e |-> row[r.e].k]

RECURSIVE Flatten(_)
Flatten(ss) == IF ss = <<>> THEN <<>> ELSE Head(ss) \o Flatten(Tail(ss))
\* expected rank-pair part of the text: sequence of [cs |-> combos, w |-> weight, sp |-> spelling]
CanonRuns(m) ==
  Flatten([n \in 1..Len(RowSeq) |->
     LET row == RowSeq[n]  rs == RunsOf(m, row) IN [k \in 1..Len(rs) |-> [cs |-> RunCombos(row, rs[k]), w |-> rs[k].w, sp |-> Spelling(row, rs[k])]]])

(***************************************************************************)
(* What a printed token list must satisfy.  toks: sequence of              *)
(* [tok |-> ParseBody(body), w |-> weight].                                *)
(***************************************************************************)
TextOK(m, toks) ==
  LET canon == CanonRuns(m)
      n == Len(canon)
      rest == {toks[i] : i \in (n + 1)..Len(toks)}
  IN /\ Len(toks) >= n
     /\ \A i \in 1..n : toks[i].tok.kind \in {"single", "plus", "span"}              \* rank pairs first, one token per maximal run
                        /\ Denote(toks[i].tok) = canon[i].cs /\ toks[i].w = canon[i].w
     /\ \A t \in rest : t.tok.kind = "cards"                                          \* then the leftovers
     /\ {<<t.tok.c, t.w>> : t \in rest} = {<<c, m[c]>> : c \in Orphans(m)}
SpellingOK(m, toks) ==
  LET canon == CanonRuns(m) IN \A i \in 1..Len(canon) : i <= Len(toks) => toks[i].tok = canon[i].sp
\* the round trip: reading the printed tokens back gives the range
RoundTripOK(m, toks) == RangeOf(toks, Empty) = m
=============================================================================
