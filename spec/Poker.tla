------------------------------- MODULE Poker -------------------------------
(***************************************************************************)
(* The rules of poker on five cards, twice:                                *)
(*   Sig(h, fl)    - the order-based DEFINITION: category and tie-break    *)
(*                   ranks, compared lexicographically (SigLess);          *)
(*   Class5(h, fl) - the closed-form strength class 1 (royal flush) ..     *)
(*                   7462 (7-5-4-3-2 unsuited).                            *)
(* MCPoker checks with TLC that the two agree on all 7462 classes, i.e.    *)
(* that Class5 is exactly the position in the sorted order of the rules.   *)
(* Seven cards: the best class over the 21 five-card subsets.              *)
(*                                                                         *)
(* Rank codes as in espada: 0 = Ace .. 12 = Deuce (smaller = stronger).    *)
(* A five-card hand is a non-decreasing 5-tuple of rank codes plus a       *)
(* flush flag.                                                             *)
(***************************************************************************)
EXTENDS Naturals, Integers, Sequences, FiniteSets, TLC, SequencesExt, FiniteSetsExt

R == 0..12

Binom[n \in 0..13, k \in 0..7] ==
  IF k = 0 THEN 1 ELSE IF n = 0 THEN 0 ELSE Binom[n - 1, k - 1] + Binom[n - 1, k]

NonDec(h, n) == \A i \in 1..(n - 1) : h[i] <= h[i + 1]
Cnt(h, n, r) == Cardinality({i \in 1..n : h[i] = r})
Distinct5(h) == h[1] < h[2] /\ h[2] < h[3] /\ h[3] < h[4] /\ h[4] < h[5]

\* straight number 0 (broadway) .. 8 (six high), 9 (wheel, ranked five high); 99 if none
StraightNo(h) ==
  IF ~Distinct5(h) THEN 99
  ELSE IF h[5] - h[1] = 4 THEN h[1]
  ELSE IF h[1] = 0 /\ h[2] = 9 THEN 9
  ELSE 99

(***************************************************************************)
(* Order-based definition.  Category numbers: 1 straight flush, 2 quads,   *)
(* 3 full house, 4 flush, 5 straight, 6 trips, 7 two pair, 8 pair, 9 high  *)
(* card.  Within a category: the ranks that matter, most important first.  *)
(***************************************************************************)
RanksWith(h, c) == {r \in R : Cnt(h, 5, r) = c}
SortedSet(S) == SetToSortSeq(S, <)
Sig(h, fl) ==
  LET s == StraightNo(h)
      r4 == RanksWith(h, 4)  r3 == RanksWith(h, 3)  r2 == RanksWith(h, 2)  r1 == RanksWith(h, 1)
  IN IF fl /\ s # 99 THEN <<1, s>>
     ELSE IF r4 # {} THEN <<2>> \o SortedSet(r4) \o SortedSet(r1)
     ELSE IF r3 # {} /\ r2 # {} THEN <<3>> \o SortedSet(r3) \o SortedSet(r2)
     ELSE IF fl THEN <<4>> \o h
     ELSE IF s # 99 THEN <<5, s>>
     ELSE IF r3 # {} THEN <<6>> \o SortedSet(r3) \o SortedSet(r1)
     ELSE IF Cardinality(r2) = 2 THEN <<7>> \o SortedSet(r2) \o SortedSet(r1)
     ELSE IF r2 # {} THEN <<8>> \o SortedSet(r2) \o SortedSet(r1)
     ELSE <<9>> \o h

RECURSIVE LexLess(_, _, _)
LexLess(a, b, i) ==
  IF i > Len(a) \/ i > Len(b) THEN FALSE
  ELSE IF a[i] < b[i] THEN TRUE
  ELSE IF a[i] > b[i] THEN FALSE
  ELSE LexLess(a, b, i + 1)
SigLess(a, b) == LexLess(a, b, 1)

(***************************************************************************)
(* Closed-form numbering.                                                  *)
(***************************************************************************)
\* lexicographic rank (0-based) of the increasing k-tuple t among the k-subsets of 0..(n-1)
RECURSIVE LexRank(_, _, _, _, _)
LexRank(t, k, n, i, prev) ==
  IF i > k THEN 0
  ELSE FoldSet(LAMBDA j, acc : acc + Binom[n - 1 - j, k - i], 0, (prev + 1)..(t[i] - 1)) + LexRank(t, k, n, i + 1, t[i])
\* position of rank r once the ranks in X (all different from r) are removed
Pos(r, X) == r - Cardinality({x \in X : x < r})
StraightsBefore(h) ==
  Cardinality({s \in 0..8 : LexLess([i \in 1..5 |-> s + i - 1], h, 1)})
  + (IF LexLess(<<0, 9, 10, 11, 12>>, h, 1) THEN 1 ELSE 0)
HighIdx(h) == LexRank(h, 5, 13, 1, -1) - StraightsBefore(h)
Class5(h, fl) ==
  LET s == StraightNo(h)
      r4 == RanksWith(h, 4)  r3 == RanksWith(h, 3)  r2 == RanksWith(h, 2)  r1 == RanksWith(h, 1)
  IN IF fl /\ s # 99 THEN 1 + s
     ELSE IF r4 # {} THEN LET q == CHOOSE x \in r4 : TRUE  k == CHOOSE x \in r1 : TRUE
                          IN 11 + 12 * q + Pos(k, {q})
     ELSE IF r3 # {} /\ r2 # {} THEN LET t == CHOOSE x \in r3 : TRUE  p == CHOOSE x \in r2 : TRUE
                          IN 167 + 12 * t + Pos(p, {t})
     ELSE IF fl THEN 323 + HighIdx(h)
     ELSE IF s # 99 THEN 1600 + s
     ELSE IF r3 # {} THEN LET t == CHOOSE x \in r3 : TRUE
                              ks == SortedSet({Pos(k, {t}) : k \in r1})
                          IN 1610 + 66 * t + LexRank(ks, 2, 12, 1, -1)
     ELSE IF Cardinality(r2) = 2 THEN LET ps == SortedSet(r2)  k == CHOOSE x \in r1 : TRUE
                          IN 2468 + 11 * LexRank(ps, 2, 13, 1, -1) + Pos(k, r2)
     ELSE IF r2 # {} THEN LET p == CHOOSE x \in r2 : TRUE
                              ks == SortedSet({Pos(k, {p}) : k \in r1})
                          IN 3326 + 220 * p + LexRank(ks, 3, 12, 1, -1)
     ELSE 6186 + HighIdx(h)

\* category of a class index (boundaries are checked against Sig by MCPoker, not trusted)
CatOfIndex(i) ==
  IF i <= 10 THEN 1 ELSE IF i <= 166 THEN 2 ELSE IF i <= 322 THEN 3 ELSE IF i <= 1599 THEN 4
  ELSE IF i <= 1609 THEN 5 ELSE IF i <= 2467 THEN 6 ELSE IF i <= 3325 THEN 7 ELSE IF i <= 6185 THEN 8 ELSE 9
CatName(c) == <<"StraightFlush", "Quads", "FullHouse", "Flush", "Straight", "Trips", "TwoPair", "Pair", "HighCard">>[c]

(***************************************************************************)
(* Seven cards.                                                            *)
(***************************************************************************)
Drop2(k, i, j) == [n \in 1..5 |-> LET a == IF n >= i THEN n + 1 ELSE n  b == IF a >= j THEN a + 1 ELSE a IN k[b]]
Pairs7 == {p \in (1..7) \X (1..7) : p[1] < p[2]}
\* key level: a non-decreasing 7-tuple of ranks without a flush
Best7NoFlush(k) ==
  Min({Class5(Drop2(k, p[1], p[2]), FALSE) : p \in {q \in Pairs7 : Drop2(k, q[1], q[2])[1] # Drop2(k, q[1], q[2])[5]}})
\* key level: the 5..7 distinct ranks (increasing) of the flush suit
BestFlush(rs) ==
  LET n == Len(rs)
      subs == {s \in SUBSET (1..n) : Cardinality(s) = 5}
  IN Min({Class5([i \in 1..5 |-> rs[SetToSortSeq(s, <)[i]]], TRUE) : s \in subs})

\* definition on concrete cards (id = 4 * rank + suit): best class over the 21 five-card subsets
RankOfCard(c) == c \div 4
SuitOfCard(c) == c % 4
Class5Cards(cs5) ==
  LET h == SortSeq([i \in 1..5 |-> RankOfCard(cs5[i])], <)
      fl == \A i \in 2..5 : SuitOfCard(cs5[i]) = SuitOfCard(cs5[1])
  IN Class5(h, fl)
Eval7Def(cs) == Min({Class5Cards(Drop2(cs, p[1], p[2])) : p \in Pairs7})
=============================================================================
