------------------------------ MODULE TraceFlop ------------------------------
(***************************************************************************)
(* Trace validation of the real FlopExhaustiveEvaluator at real size       *)
(* (52 cards, 49-card deck) against FlopEnum (C02).  The trace is a        *)
(* sequence of blocks:                                                     *)
(*    new   - an evaluator is created (flop, ranges, scope) and iterated   *)
(*    next  - one yielded showdown: board, hole cards, dyadic probability  *)
(*    none  - next() returned None                                         *)
(*    abandon - the iterator is dropped (configurations too large to drain)*)
(*    route - a fresh iterator of the same configuration consumed through  *)
(*            nth / skip / step_by / last / count / collect               *)
(* Each next event must be a Yield of FlopEnum: a legal deal, inside the   *)
(* scope, not yet yielded, at a position not before the current one, with  *)
(* every position in between drained; each first none must be an Exhaust   *)
(* (everything up to the end of the scope drained); later nones are Stay.  *)
(***************************************************************************)
EXTENDS FlopEnum, Json, IOUtils

Rec == ndJsonDeserialize(IOEnv.TRACE)
VARIABLES l, deck, seenH        \* seenH: hole-card tuples yielded at the current position
tvars == <<l, deck, seenH, cfg, pos, seen, st>>

IdxOf(d, c) == (CHOOSE i \in 1..Len(d) : d[i] = c) - 1
InDeck(d, c) == \E i \in 1..Len(d) : d[i] = c

TInit == l = 1 /\ cfg = <<>> /\ deck = <<>> /\ pos = <<0, 1>> /\ seen = {} /\ seenH = {} /\ st = "idle"

TraceNew == /\ l <= Len(Rec) /\ Rec[l].op = "new"
            /\ st \in {"idle", "exhausted"}
            /\ cfg' = Rec[l] /\ deck' = DeckOf(Rec[l].flop)
            /\ pos' = Rec[l].from /\ seen' = {} /\ seenH' = {} /\ st' = "running" /\ l' = l + 1

TraceNext ==
  /\ l <= Len(Rec) /\ Rec[l].op = "next" /\ st = "running"
  /\ LET e == Rec[l]
         n == NPlayers(cfg)
     IN /\ Len(e.board) = 5 /\ Len(e.holes) = n
        /\ e.board[1] = cfg.flop[1] /\ e.board[2] = cfg.flop[2] /\ e.board[3] = cfg.flop[3]   \* flop in the given order
        /\ InDeck(deck, e.board[4]) /\ InDeck(deck, e.board[5])
        /\ LET p == <<IdxOf(deck, e.board[4]), IdxOf(deck, e.board[5])>>
               cards == UNION {{e.holes[k][1], e.holes[k][2]} : k \in 1..n} \cup {e.board[j] : j \in 1..5}
           IN /\ IsPos(p)                                                    \* turn before river
              /\ PosLE(pos, p) /\ PosLT(p, cfg.to)                           \* inside the scope, never backwards
              /\ \A k \in 1..n : \E i \in 1..Len(cfg.ranges[k]) : Hole(cfg, k, i) = e.holes[k]   \* from the player's range
              /\ Cardinality(cards) = 5 + 2 * n                               \* all cards distinct
              /\ LET deal == [k \in 1..n |-> CHOOSE i \in 1..Len(cfg.ranges[k]) : Hole(cfg, k, i) = e.holes[k]]
                 IN Prob(cfg, deal) = <<e.pm, e.pe>>                          \* product of the weights
              /\ IF p = pos THEN e.holes \notin seenH /\ seenH' = seenH \cup {e.holes}   \* not yielded before
                 ELSE DrainedCount(cfg, deck, pos, p, Cardinality(seenH)) /\ seenH' = {e.holes}
              /\ pos' = p
  /\ l' = l + 1 /\ UNCHANGED <<cfg, deck, st, seen>>

TraceNone ==
  /\ l <= Len(Rec) /\ Rec[l].op = "none"
  /\ \/ /\ st = "running" /\ DrainedCount(cfg, deck, pos, cfg.to, Cardinality(seenH)) /\ st' = "exhausted"
     \/ /\ st = "exhausted" /\ st' = st
  /\ l' = l + 1 /\ UNCHANGED <<cfg, deck, pos, seen, seenH>>

\* an iterator that is too large to drain is dropped after its first showdowns (nothing is claimed about the rest)
TraceAbandon == /\ l <= Len(Rec) /\ Rec[l].op = "abandon" /\ st = "running" /\ st' = "exhausted"
                /\ l' = l + 1 /\ UNCHANGED <<cfg, deck, pos, seen, seenH>>
\* the same configuration enumerated once more through another route of the Iterator trait (nth, skip, step_by, last, count,
\* collect), on a fresh iterator, after the plain run of the block has ended: what the route returned is the showdown the
\* plain run yielded at that place (the event e.back lines earlier), or nothing where the plain run had ended
TraceRoute ==
  /\ l <= Len(Rec) /\ Rec[l].op = "route" /\ st = "exhausted"
  /\ LET e == Rec[l] IN
       /\ e.back >= 1 /\ e.back < l
       /\ LET r == Rec[l - e.back] IN
            \/ /\ e.res = "some" /\ r.op = "next"
               /\ e.board = r.board /\ e.holes = r.holes /\ e.pm = r.pm /\ e.pe = r.pe
            \/ e.res = "none" /\ r.op = "none"
  /\ l' = l + 1 /\ UNCHANGED <<cfg, deck, pos, seen, seenH, st>>
TNext == TraceNew \/ TraceNext \/ TraceNone \/ TraceAbandon \/ TraceRoute
TSpec == TInit /\ [][TNext]_tvars
\* acceptance: the whole trace was consumed; otherwise print the first event that matches no action
Accepted == IF TLCGet("stats").diameter - 1 = Len(Rec) THEN TRUE
            ELSE PrintT(<<"REJECTED", TLCGet("stats").diameter>>) /\ FALSE
=============================================================================
