------------------------------ MODULE Showdown ------------------------------
(***************************************************************************)
(* A showdown: which players win, given each player's strength class.      *)
(*                                                                         *)
(* Property level:  Winners(idx) - the players no other player beats       *)
(*                  (smaller class = stronger).                            *)
(* Implementation shape (Showdown::new): one pass over the players in      *)
(*                  input order keeping the strongest class seen so far    *)
(*                  and the set of positions attaining it.                 *)
(* TLC checks for every class vector over a small domain (every pattern of *)
(* two-way and multi-way ties for up to MaxPlayers players) that the pass  *)
(* computes Winners, at every step for the prefix visited so far.          *)
(***************************************************************************)
EXTENDS Naturals, Integers, Sequences, FiniteSets

Winners(idx) == {i \in DOMAIN idx : \A j \in DOMAIN idx : idx[i] <= idx[j]}

CONSTANTS MaxPlayers, Classes      \* e.g. 6 and 1..4
VARIABLES idx, i, strongest, winners
vars == <<idx, i, strongest, winners>>

Init == /\ idx \in UNION {[1..n -> Classes] : n \in 1..MaxPlayers}
        /\ i = 1 /\ strongest = 65535 /\ winners = {}
Visit == /\ i <= Len(idx)
         /\ IF idx[i] <= strongest
            THEN /\ strongest' = idx[i]
                 /\ winners' = (IF idx[i] < strongest THEN {} ELSE winners) \cup {i}
            ELSE UNCHANGED <<strongest, winners>>
         /\ i' = i + 1 /\ UNCHANGED idx
Spec == Init /\ [][Visit]_vars

PrefixOK == winners = Winners(SubSeq(idx, 1, i - 1))
Done == i = Len(idx) + 1
FlagsOK == Done => /\ winners = Winners(idx)
                   /\ Cardinality(winners) >= 1
                   /\ \A w \in winners : idx[w] = strongest
=============================================================================
