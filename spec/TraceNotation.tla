---------------------------- MODULE TraceNotation ----------------------------
(***************************************************************************)
(* Trace validation of the text parsers.                                   *)
(*   tok  - one well-formed token body + weight literal, parsed as a token *)
(*          (expanded) and as a one-token range                            *)
(*   list - a comma-separated list of well-formed tokens with spaces       *)
(*   str  - an arbitrary string through the six parsers and, for every Ok  *)
(*          value, the follow-up calls (expand, format, split, enumerate)  *)
(* C05: tok/list results equal the denotation of Notation.tla.             *)
(* C06 (token half): the text of a token parses back to an equal token     *)
(*   (tok: tokens obtained by parsing; ctok: every well-formed token built *)
(*   with HandRangeToken::new and arbitrary weight bits in [0,1]).         *)
(* C09: no outcome is a panic.                                             *)
(* C10: every combo of every parsed value has two different cards and a    *)
(*      weight in [0,1]; showdowns from parsed ranges have distinct cards  *)
(*      and a probability in [0,1].                                        *)
(* ParserShape (implementation-shaped) predicts the outcome for strings of *)
(* its alphabet; a disagreement is reported as DRIFT, never as a verdict.  *)
(***************************************************************************)
EXTENDS Notation, Json, IOUtils

PS == INSTANCE ParserShape WITH AsFound <- FALSE
Rec == ndJsonDeserialize(IOEnv.TRACE)
VARIABLE l
AsMap(tr) == [c \in {<<tr[i][1], tr[i][2]>> : i \in DOMAIN tr} |-> (CHOOSE i \in DOMAIN tr : <<tr[i][1], tr[i][2]>> = c)]
MapOf(tr) == LET idx == AsMap(tr) IN [c \in DOMAIN idx |-> tr[idx[c]][3]]
NoDupKeys(tr) == Cardinality({<<tr[i][1], tr[i][2]>> : i \in DOMAIN tr}) = Len(tr)
TripleSet(tr) == {<<tr[i][1], tr[i][2], tr[i][3]>> : i \in DOMAIN tr}
ValidTriples(tr) == \A i \in DOMAIN tr : tr[i][1] # tr[i][2] /\ tr[i][1] \in 0..51 /\ tr[i][2] \in 0..51 /\ ValidWeight(tr[i][3])

\* ---- C05
TokOK(e) ==
  LET tok == ParseBody(e.body)  den == Denote(tok) IN
  /\ tok.kind # "bad"
  /\ e.tres = "ok" /\ TripleSet(e.exp) = {<<c[1], c[2], e.w>> : c \in den}
  /\ e.rres = "ok" /\ NoDupKeys(e.rng) /\ MapOf(e.rng) = [c \in den |-> e.w]
ListOK(e) ==
  LET toks == [i \in DOMAIN e.toks |-> [tok |-> ParseBody(e.toks[i].body), w |-> e.toks[i].w]] IN
  /\ \A i \in DOMAIN toks : toks[i].tok.kind # "bad"
  /\ e.rres = "ok" /\ NoDupKeys(e.rng) /\ MapOf(e.rng) = RangeOf(toks, Empty)
  \* the same list through the other public route: each token parsed alone, the expansions collected into a range in list order
  /\ e.cres = "ok" /\ NoDupKeys(e.crng) /\ MapOf(e.crng) = RangeOf(toks, Empty)
AllowedC05(e) == CASE e.op = "tok" -> TokOK(e) [] e.op = "list" -> ListOK(e) [] OTHER -> TRUE
\* ---- C06, token half
\* a token built with HandRangeToken::new (kind, rank pair, end rank or cards, weight), printed, the text parsed back:
\* the reparsed token is equal and expands to the same combos with the same weight bits as the constructed one
CTokOK(e) ==
  /\ e.fmt = "ok" /\ e.ores = "ok" /\ e.res = "ok" /\ e.eq = 1
  /\ Len(e.back) = Len(e.orig) /\ TripleSet(e.back) = TripleSet(e.orig)
  /\ \A i \in DOMAIN e.back : e.back[i][3] = e.w
AllowedC06(e) == CASE e.op = "tok" -> e.rt = 1 [] e.op = "ctok" -> CTokOK(e) [] OTHER -> TRUE
\* ---- C09
NoPanicStr(e) == /\ e.rank # "panic" /\ e.suit # "panic" /\ e.card # "panic" /\ e.pair # "panic" /\ e.token # "panic"
                 /\ e.range # "panic" /\ e.expand # "panic" /\ e.fmt # "panic" /\ e.split # "panic" /\ e.enum \notin {"panic", "hang"}
AllowedC09(e) == CASE e.op = "str" -> NoPanicStr(e)
                   [] e.op = "tok" -> e.tres # "panic" /\ e.rres # "panic" /\ e.rt # -2
                   [] e.op = "list" -> e.rres # "panic" /\ e.cres # "panic"
                   [] e.op = "ctok" -> e.fmt # "panic" /\ e.res # "panic" /\ e.ores # "panic"
                   [] OTHER -> TRUE
\* ---- C10
ShowsOK(sh) == \A i \in DOMAIN sh : Cardinality({sh[i][1][j] : j \in DOMAIN sh[i][1]}) = Len(sh[i][1]) /\ ValidWeight(sh[i][2])
AllowedC10(e) == CASE e.op = "str" -> ValidTriples(e.rng) /\ ValidTriples(e.texp) /\ ShowsOK(e.shows)
                   [] e.op = "tok" -> ValidTriples(e.rng) /\ ValidTriples(e.exp)
                   [] e.op = "list" -> ValidTriples(e.rng) /\ ValidTriples(e.crng)
                   [] OTHER -> TRUE
\* ---- implementation-shaped prediction (informational)
Predicted(e) == LET o == PS!Outcomes(e.s) IN
  o.card = e.card /\ o.pair = e.pair /\ o.token = e.token /\ (e.expand = "na" \/ o.expand = e.expand)
DriftNote(e, i) == (e.op = "str" /\ e.model = 1 /\ ~Predicted(e)) => PrintT(<<"DRIFT", i>>)

K == 64
Init == l = <<"root">>
Next == \/ l = <<"root">> /\ \E k \in 0..(K - 1) : l' = <<"shard", k>>
        \/ l[1] = "shard" /\ \E i \in 1..Len(Rec) : i % K = l[2] /\ l' = <<"event", i>>
Spec == Init /\ [][Next]_l
EventOK05 == l[1] = "event" => (AllowedC05(Rec[l[2]]) \/ PrintT(<<"BAD", l[2]>>))
EventOK06 == l[1] = "event" => (AllowedC06(Rec[l[2]]) \/ PrintT(<<"BAD", l[2]>>))
EventOK09 == l[1] = "event" => ((AllowedC09(Rec[l[2]]) \/ PrintT(<<"BAD", l[2]>>)) /\ DriftNote(Rec[l[2]], l[2]))
EventOK10 == l[1] = "event" => (AllowedC10(Rec[l[2]]) \/ PrintT(<<"BAD", l[2]>>))
=============================================================================
