------------------------------- MODULE Cards -------------------------------
(***************************************************************************)
(* Card, rank and suit codes of espada, and everything that is a pure      *)
(* table: texts, the one-hot 64-bit encoding, order, successor and         *)
(* predecessor, rank/suit ranges, and the unordered hole-card pair.        *)
(*                                                                         *)
(* card id = 4 * rank + suit; rank 0 = Ace .. 12 = Deuce; suit 0 = spade,  *)
(* 1 = heart, 2 = diamond, 3 = club.  The id is at once the derived order  *)
(* on cards, the deck order of the enumeration and the bit position of the *)
(* u64 encoding.  Characters are ASCII codes so that every byte value can  *)
(* be written in a trace.                                                  *)
(***************************************************************************)
EXTENDS Naturals, Integers, Sequences, FiniteSets

Ranks == 0..12
Suits == 0..3
CardIds == 0..51
RankOf(c) == c \div 4
SuitOf(c) == c % 4
CardId(r, s) == 4 * r + s

\* "AKQJT98765432" and "shdc"
RankChr == <<65, 75, 81, 74, 84, 57, 56, 55, 54, 53, 52, 51, 50>>
SuitChr == <<115, 104, 100, 99>>
IsRankChr(ch) == \E i \in 1..13 : RankChr[i] = ch
IsSuitChr(ch) == \E i \in 1..4 : SuitChr[i] = ch
RankFromChr(ch) == (CHOOSE i \in 1..13 : RankChr[i] = ch) - 1
SuitFromChr(ch) == (CHOOSE i \in 1..4 : SuitChr[i] = ch) - 1

CardText(c) == <<RankChr[RankOf(c) + 1], SuitChr[SuitOf(c) + 1]>>
\* the only texts that are cards; result -1 = rejected
CardFromText(s) ==
  IF Len(s) = 2 /\ IsRankChr(s[1]) /\ IsSuitChr(s[2])
  THEN CardId(RankFromChr(s[1]), SuitFromChr(s[2])) ELSE -1

\* one-hot word: described by (number of one bits, index of the lowest one bit)
BitOf(c) == c
WordOf(c) == [pop |-> 1, tz |-> BitOf(c)]
CardOfBit(k) == k

Sign(x) == IF x < 0 THEN -1 ELSE IF x > 0 THEN 1 ELSE 0
NextRank(r) == IF r = 12 THEN -1 ELSE r + 1
PrevRank(r) == IF r = 0 THEN -1 ELSE r - 1

\* contiguous run between two endpoints a <= b; incl = TRUE keeps b
Run(a, b, incl) == [i \in 1..(IF incl THEN b - a + 1 ELSE b - a) |-> a + i - 1]

\* unordered pair of two cards: the smaller id first
Pair(a, b) == IF a <= b THEN <<a, b>> ELSE <<b, a>>
PairText(a, b) == CardText(Pair(a, b)[1]) \o CardText(Pair(a, b)[2])
AllPairs == {p \in CardIds \X CardIds : p[1] < p[2]}

=============================================================================
