------------------------------ MODULE MCPoker ------------------------------
(***************************************************************************)
(* TLC model for Poker.tla.                                                *)
(*  1. ASSUME ClosedFormMatchesOrder: on all 7462 classes the closed-form  *)
(*     index is the position of the hand's signature in the sorted order   *)
(*     of the rules, and the category boundaries are those of the rules.   *)
(*  2. A machine that deals one rank at a time in non-decreasing order;    *)
(*     its states at depth 5 are all five-card rank patterns, at depth 7   *)
(*     all 49,205 seven-card rank multisets (at most four of a rank).      *)
(*     Invariants evaluate the best class of every key and print the       *)
(*     tables the conformance harness and the trace modules use:           *)
(*       <<"N", h, c>>  five ranks, no flush      <<"S", h, c>>  flush     *)
(*       <<"K", key, c, cat>> seven ranks        <<"F", ranks, c, cat>>   *)
(*                                            5..7 distinct flush ranks    *)
(***************************************************************************)
EXTENDS Poker

Hands5 == {h \in [1..5 -> R] : NonDec(h, 5) /\ h[1] # h[5]}
AllSigs == {Sig(h, FALSE) : h \in Hands5} \cup {Sig(h, TRUE) : h \in {g \in Hands5 : Distinct5(g)}}
SortedSigs == SetToSortSeq(AllSigs, SigLess)

ClosedFormMatchesOrder ==
  LET ss == SortedSigs IN
  /\ Len(ss) = 7462
  /\ \A h \in Hands5 : ss[Class5(h, FALSE)] = Sig(h, FALSE)
  /\ \A h \in {g \in Hands5 : Distinct5(g)} : ss[Class5(h, TRUE)] = Sig(h, TRUE)
  /\ \A i \in 1..7462 : CatOfIndex(i) = ss[i][1]
ASSUME ClosedFormMatchesOrder

VARIABLES key, n
Init == key = <<>> /\ n = 0
Next == /\ n < 7
        /\ \E r \in R : /\ (IF n = 0 THEN TRUE ELSE r >= key[n])
                        /\ (IF n < 4 THEN TRUE ELSE key[n - 3] # r)
                        /\ key' = Append(key, r)
                        /\ n' = n + 1
Spec == Init /\ [][Next]_<<key, n>>

AllDistinct == \A i \in 1..(n - 1) : key[i] < key[i + 1]
Inv == /\ n = 7 => Best7NoFlush(key) \in 1..7462
       /\ (n >= 5 /\ AllDistinct) => BestFlush(key) \in 1..1599
Emit == /\ n = 5 => PrintT(<<"N", key, Class5(key, FALSE)>>)
        /\ (n = 5 /\ AllDistinct) => PrintT(<<"S", key, Class5(key, TRUE)>>)
        /\ n = 7 => PrintT(<<"K", key, Best7NoFlush(key), CatOfIndex(Best7NoFlush(key))>>)
        /\ (n >= 5 /\ AllDistinct) => PrintT(<<"F", key, BestFlush(key), CatOfIndex(BestFlush(key))>>)
=============================================================================
