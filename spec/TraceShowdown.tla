---------------------------- MODULE TraceShowdown ----------------------------
(***************************************************************************)
(* Trace validation of Showdown::new (C03).  Each event is one call with a *)
(* five-card board, the players' hole cards in input order and the         *)
(* probability handed in; allowed iff the result is what the property      *)
(* states, with every strength computed by the rules from the raw cards.   *)
(***************************************************************************)
EXTENDS PokerTab, IOUtils

Rec == ndJsonDeserialize(IOEnv.TRACE)
VARIABLE l
Winners(idx) == {i \in DOMAIN idx : \A j \in DOMAIN idx : idx[i] <= idx[j]}
Ran(s) == {s[i] : i \in DOMAIN s}
MinMax(a, b) == IF a <= b THEN <<a, b>> ELSE <<b, a>>

AllowedC03(e) ==
  LET n == Len(e.players)
      board == Ran(e.board)
      onBoard == \E k \in 1..n : e.players[k][1] \in board \/ e.players[k][2] \in board
      hole == UNION {{e.players[k][1], e.players[k][2]} : k \in 1..n}
  IN IF onBoard THEN e.none = 1                                       \* no showdown when a hole card is on the board
     ELSE IF Cardinality(hole) # 2 * n THEN TRUE                      \* outside the statement: players sharing cards
     ELSE LET seven == [k \in 1..n |-> e.board \o e.players[k]]
              true == [k \in 1..n |-> Eval7(seven[k])]
              W == Winners(true)
          IN /\ e.none = 0
             /\ Len(e.idx) = n /\ Len(e.win) = n /\ Len(e.holes) = n /\ Len(e.cards) = n
             /\ e.sboard = e.board                                    \* the board as given
             /\ e.prob = e.p                                          \* probability echoed, bit for bit
             /\ \A k \in 1..n :
                  /\ e.holes[k] = MinMax(e.players[k][1], e.players[k][2])   \* input order kept
                  /\ e.pboard[k] = e.board
                  /\ Len(e.cards[k]) = 7 /\ Ran(e.cards[k]) = Ran(seven[k])  \* the player's own seven cards
                  /\ e.idx[k] = true[k]                                       \* their evaluation
                  /\ e.win[k] = (IF k \in W THEN 1 ELSE 0)                    \* exactly the strongest are flagged
             /\ e.wl = Cardinality(W) /\ e.wl >= 1

K == 64
Init == l = <<"root">>
Next == \/ l = <<"root">> /\ \E k \in 0..(K - 1) : l' = <<"shard", k>>
        \/ l[1] = "shard" /\ \E i \in 1..Len(Rec) : i % K = l[2] /\ l' = <<"event", i>>
Spec == Init /\ [][Next]_l
\* "volume": summary of a long run of repeated calls on one thread (every repetition whose result differed from the first
\* result of the same call is in the trace as an ordinary showdown event)
Allowed(e) == IF e.op = "volume" THEN e.calls >= 0 ELSE AllowedC03(e)
EventOK == l[1] = "event" => (Allowed(Rec[l[2]]) \/ PrintT(<<"BAD", l[2]>>))
=============================================================================
