------------------------------ MODULE PosWalk ------------------------------
(***************************************************************************)
(* The position walk of the enumeration, unbounded in the deck size D, for *)
(* Apalache (optional extra; nothing in the manifest depends on it).       *)
(* State: the (turn, river) index pair.  One step: the river moves on; at  *)
(* the last river the turn moves on and the river restarts right after it. *)
(* IndInv is inductive: the pair is always a position (turn < river < D)   *)
(* or the terminal (D-1, D); and every step moves strictly forwards in the *)
(* lexicographic order (checked as an action invariant), so the walk       *)
(* visits every position once, in order, and ends at the terminal.         *)
(***************************************************************************)
EXTENDS Integers

CONSTANT
  \* @type: Int;
  D

VARIABLES
  \* @type: Int;
  turn,
  \* @type: Int;
  river

ConstInit == D \in 3..60
IsPos == 0 <= turn /\ turn < river /\ river <= D - 1
IsEnd == turn = D - 1 /\ river = D
IndInv == IsPos \/ IsEnd
Init == turn = 0 /\ river = 1
IndInit == turn \in 0..60 /\ river \in 0..61 /\ IndInv
Next == \/ IsEnd /\ UNCHANGED <<turn, river>>
        \/ ~IsEnd /\ IF river < D - 1 THEN river' = river + 1 /\ turn' = turn
                     ELSE turn' = turn + 1 /\ river' = turn + 2
\* every non-stuttering step moves strictly forwards
Forward == IsEnd \/ turn' > turn \/ (turn' = turn /\ river' > river)
=============================================================================
