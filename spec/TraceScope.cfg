CONSTANT D = 49
SPECIFICATION Spec
INVARIANT EventOK
CHECK_DEADLOCK FALSE
