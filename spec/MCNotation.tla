----------------------------- MODULE MCNotation -----------------------------
(***************************************************************************)
(* TLC model for Notation: self-checks of the denotation (the 169 rank     *)
(* pairs partition the 1326 combos; 'X+' and spans are unions of singles;  *)
(* sizes 6/4/12; the text of a token reads back as the same token), the    *)
(* count of well-formed bodies (3,796), last-writer-wins on token lists,   *)
(* and the export of every well-formed body for the conformance harness:   *)
(*    <<"TOK", body>>                                                      *)
(***************************************************************************)
EXTENDS Notation

SpanTokens == {[kind |-> "span", rp |-> Pocket(p[1]), e |-> p[2]] : p \in {q \in (0..12) \X (0..12) : q[1] < q[2]}}
              \cup {[kind |-> "span", rp |-> Kick(t, p[1], p[2]), e |-> p[3]] : t \in {"S", "O"},
                      p \in {q \in (0..11) \X (1..12) \X (1..12) : q[1] < q[2] /\ q[2] < q[3]}}
CanonTokens == {[kind |-> "single", rp |-> rp] : rp \in RPs} \cup {[kind |-> "plus", rp |-> rp] : rp \in RPs}
               \cup SpanTokens \cup {[kind |-> "cards", c |-> c] : c \in AllCombos}
\* all well-formed bodies: canonical texts, singles in reversed rank order, card pairs in reversed card order
Reversed(tok) == IF tok.kind = "single" /\ tok.rp.t # "P"
                 THEN <<RankCh[tok.rp.k + 1], RankCh[tok.rp.h + 1], (IF tok.rp.t = "S" THEN "s" ELSE "o")>>
                 ELSE CardTextS(tok.c[2]) \o CardTextS(tok.c[1])
Bodies == {TokText(t) : t \in CanonTokens}
          \cup {Reversed(t) : t \in {x \in CanonTokens : x.kind = "cards" \/ (x.kind = "single" /\ x.rp.t # "P")}}

Laws ==
  /\ Cardinality(RPs) = 169
  /\ UNION {Combos(rp) : rp \in RPs} = AllCombos
  /\ \A x, y \in RPs : x # y => Combos(x) \cap Combos(y) = {}
  /\ \A rp \in RPs : Cardinality(Combos(rp)) = (IF rp.t = "P" THEN 6 ELSE IF rp.t = "S" THEN 4 ELSE 12)
  /\ Cardinality(Bodies) = 3796
  /\ \A t \in CanonTokens : ParseBody(TokText(t)) = t                        \* text reads back as the token
  /\ \A b \in Bodies : ParseBody(b).kind # "bad"
  /\ \A t \in SpanTokens : Denote(t) = UNION {Combos(rp) : rp \in {x \in RPs : x.t = t.rp.t /\ x.h = (IF t.rp.t = "P" THEN x.k ELSE t.rp.h)
                                                                  /\ x.k >= t.rp.k /\ x.k <= t.e}}
  /\ \A rp \in RPs : Denote([kind |-> "plus", rp |-> rp]) =
        UNION {Combos(x) : x \in {y \in RPs : y.t = rp.t /\ (IF rp.t = "P" THEN y.k <= rp.k ELSE y.h = rp.h /\ y.k <= rp.k)}}
ASSUME Laws
ASSUME \A b \in Bodies : PrintT(<<"TOK", b>>)

\* last-writer-wins on lists of up to three overlapping tokens with two weights
PoolT == <<[kind |-> "plus", rp |-> Pocket(2)], [kind |-> "span", rp |-> Pocket(1), e |-> 3], [kind |-> "single", rp |-> Pocket(2)],
           [kind |-> "cards", c |-> <<8, 9>>], [kind |-> "plus", rp |-> Kick("S", 0, 3)], [kind |-> "span", rp |-> Kick("S", 0, 2), e |-> 5],
           [kind |-> "single", rp |-> Kick("O", 0, 1)], [kind |-> "cards", c |-> <<0, 5>>]>>
VARIABLE toks
Init == toks = <<>>
Next == Len(toks) < 3 /\ \E i \in 1..Len(PoolT), w \in {One, 1056964608} : toks' = Append(toks, [tok |-> PoolT[i], w |-> w])
Spec == Init /\ [][Next]_toks
LastWriterWins ==
  LET m == RangeOf(toks, Empty) IN
  /\ DOMAIN m = UNION {Denote(toks[i].tok) : i \in 1..Len(toks)}
  /\ \A c \in DOMAIN m : m[c] = toks[CHOOSE i \in 1..Len(toks) : c \in Denote(toks[i].tok) /\ \A j \in (i + 1)..Len(toks) : c \notin Denote(toks[j].tok)].w
=============================================================================
