SPECIFICATION LemmaSpec
CONSTANT DeckRanks = {0, 9, 10, 11, 12}
INVARIANT AbstractionLemma
CHECK_DEADLOCK FALSE
