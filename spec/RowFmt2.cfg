CONSTANT L = 2
SPECIFICATION Spec
INVARIANT RoundTrip
INVARIANT Canonical
CHECK_DEADLOCK FALSE
