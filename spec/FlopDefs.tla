------------------------------ MODULE FlopDefs ------------------------------
(***************************************************************************)
(* Definitions of the property-level specification of flop enumeration     *)
(* (C02, C04, C08): configurations, positions, legal deals, and the step   *)
(* predicates.  No variables: FlopEnum adds the state machine; trace and   *)
(* system modules reuse these operators.                                   *)
(*                                                                         *)
(* A configuration is a flop (three card ids, in the order given), one     *)
(* range per player - a sequence of entries [c |-> <<a, b>>, m, e] with    *)
(* weight m / 2^e - and a scope [from, to) of positions.  A position is a  *)
(* pair (turn index, river index), turn < river, into the deck = Universe  *)
(* minus the flop in increasing id order (ace to deuce; spade, heart,      *)
(* diamond, club within a rank).  Positions are ordered lexicographically; *)
(* End = (D-1, D) is the terminal non-position.                            *)
(*                                                                         *)
(* A deal at a position is one entry index per player; it is legal iff all *)
(* 5 + 2n cards are distinct.  The enumeration may yield the legal deals   *)
(* of a position in any order, but positions in order, each deal exactly   *)
(* once, nothing else; then it is exhausted and stays so.                  *)
(***************************************************************************)
EXTENDS Naturals, Integers, Sequences, FiniteSets, TLC, SequencesExt, FiniteSetsExt

CONSTANT Universe          \* set of card ids; the real library: 0..51
D == Cardinality(Universe) - 3
End == <<D - 1, D>>
PosLT(a, b) == a[1] < b[1] \/ (a[1] = b[1] /\ a[2] < b[2])
PosLE(a, b) == a = b \/ PosLT(a, b)
SuccPos(p) == IF p[2] < D - 1 THEN <<p[1], p[2] + 1>> ELSE <<p[1] + 1, p[1] + 2>>
IsPos(p) == p[1] >= 0 /\ p[1] < p[2] /\ p[2] <= D - 1
Positions == {p \in (0..(D - 2)) \X (1..(D - 1)) : p[1] < p[2]}
DeckOf(flop) == SetToSortSeq(Universe \ {flop[1], flop[2], flop[3]}, <)
Ran(s) == {s[i] : i \in DOMAIN s}

\* the five board cards at position p: the flop as given, then turn, then river
BoardAt(c, deck, p) == <<c.flop[1], c.flop[2], c.flop[3], deck[p[1] + 1], deck[p[2] + 1]>>

\* a deal: one entry index per player
NPlayers(c) == Len(c.ranges)
Hole(c, k, i) == c.ranges[k][i].c
DealCards(c, deck, p, deal) ==
  Ran(BoardAt(c, deck, p)) \cup UNION {{Hole(c, k, deal[k])[1], Hole(c, k, deal[k])[2]} : k \in 1..NPlayers(c)}
AllDeals(c) == {d \in [1..NPlayers(c) -> Nat] : \A k \in 1..NPlayers(c) : d[k] \in 1..Len(c.ranges[k])}
RECURSIVE Deals(_, _)
Deals(c, k) == IF k = 0 THEN {<<>>} ELSE {Append(d, i) : d \in Deals(c, k - 1), i \in 1..Len(c.ranges[k])}
Legal(c, deck, p) ==
  {deal \in Deals(c, NPlayers(c)) : Cardinality(DealCards(c, deck, p, deal)) = 5 + 2 * NPlayers(c)}

\* probability of a deal: product of the chosen entries' dyadic weights, as <<m, e>> (m = 0: zero)
Prob(c, deal) ==
  LET M == FoldSet(LAMBDA k, acc : acc * c.ranges[k][deal[k]].m, 1, 1..NPlayers(c))
      E == FoldSet(LAMBDA k, acc : acc + c.ranges[k][deal[k]].e, 0, 1..NPlayers(c))
  IN IF M = 0 THEN <<0, 0>> ELSE <<M, E>>

\* every position q with a <= q < b is drained (position a has exactly seenAtA yielded so far)
RECURSIVE Drained(_, _, _, _, _)
Drained(c, deck, a, b, seenAtA) ==
  IF ~PosLT(a, b) THEN TRUE ELSE Legal(c, deck, a) = seenAtA /\ Drained(c, deck, SuccPos(a), b, {})

\* counting form of Legal (no deal set is materialised): used at real size by the trace specifications;
\* MCFlop checks CountLegal = Cardinality(Legal) on the small-scope family
RECURSIVE CountFrom(_, _, _)
CountFrom(c, k, used) ==
  IF k > NPlayers(c) THEN 1
  ELSE LET es == {i \in 1..Len(c.ranges[k]) : Hole(c, k, i)[1] \notin used /\ Hole(c, k, i)[2] \notin used}
       IN IF k = NPlayers(c) THEN Cardinality(es)
          ELSE FoldSet(LAMBDA i, acc : acc + CountFrom(c, k + 1, used \cup {Hole(c, k, i)[1], Hole(c, k, i)[2]}), 0, es)
CountLegal(c, deck, p) == CountFrom(c, 1, Ran(BoardAt(c, deck, p)))
RECURSIVE DrainedCount(_, _, _, _, _)
DrainedCount(c, deck, a, b, n) ==
  IF ~PosLT(a, b) THEN TRUE ELSE CountLegal(c, deck, a) = n /\ DrainedCount(c, deck, SuccPos(a), b, 0)
RECURSIVE TotalLegal(_, _, _, _)
TotalLegal(c, deck, a, b) == IF ~PosLT(a, b) THEN 0 ELSE CountLegal(c, deck, a) + TotalLegal(c, deck, SuccPos(a), b)

(***************************************************************************)
(* The step relation as predicates over (pos, seen, st), so that trace     *)
(* specifications and refinement mappings reuse exactly this text.         *)
(***************************************************************************)
YieldOK(c, deck, pos, seen, st, p, deal) ==
  /\ st = "running" /\ IsPos(p) /\ PosLE(pos, p) /\ PosLT(p, c.to) /\ deal \in Legal(c, deck, p)
  /\ IF p = pos THEN deal \notin seen ELSE Drained(c, deck, pos, p, seen)
ExhaustOK(c, deck, pos, seen, st) == st = "running" /\ Drained(c, deck, pos, c.to, seen)
=============================================================================
