------------------------------- MODULE TraceSym -------------------------------
(***************************************************************************)
(* Trace validation for C11.  Each event is one complete run of the real   *)
(* evaluator, summarised losslessly for this property:                     *)
(*   patterns : [winner_len, flags per player, how many showdowns]         *)
(*   tally    : per player, per k, the integer the README loop accumulated *)
(*   base     : line of the run this one is an image of (0: it is a base)  *)
(*   sigma/pi : the suit and seat permutation applied to the base          *)
(***************************************************************************)
EXTENDS Symmetry, Json, IOUtils

Rec == ndJsonDeserialize(IOEnv.TRACE)
VARIABLE l
Sum(f, S) == FoldSet(LAMBDA x, acc : acc + f[x], 0, S)

RunOK(e) ==
  LET n == Len(e.ranges)
      P == 1..Len(e.patterns)
  IN /\ \A j \in P : LET wl == e.patterns[j][1]  fl == e.patterns[j][2] IN
          /\ Len(fl) = n
          /\ wl >= 1 /\ wl = FoldSet(LAMBDA p, acc : acc + fl[p], 0, 1..n)   \* the shares 1/wl of the flagged players add up to one pot
          /\ e.patterns[j][3] >= 1
     /\ e.count = FoldSet(LAMBDA j, acc : acc + e.patterns[j][3], 0, P)
     /\ Len(e.tally) = n
     /\ \A p \in 1..n : Len(e.tally[p]) = n /\ \A k \in 1..n :
          e.tally[p][k] = FoldSet(LAMBDA j, acc : acc + (IF e.patterns[j][1] = k /\ e.patterns[j][2][p] = 1 THEN e.patterns[j][3] ELSE 0), 0, P)

ImageOK(e) ==
  e.base = 0 \/ LET b == Rec[e.base] IN
    /\ IsImage(b, e, e.sigma, e.pi)            \* the harness really ran the image configuration
    /\ e.count = b.count                        \* same number of showdowns
    /\ TallyImage(b.tally, e.tally, e.pi)       \* tallies unchanged by sigma, permuted by pi

Allowed(e) == e.op = "run" /\ e.outcome = "ok" /\ RunOK(e) /\ ImageOK(e)

K == 64
Init == l = <<"root">>
Next == \/ l = <<"root">> /\ \E k \in 0..(K - 1) : l' = <<"shard", k>>
        \/ l[1] = "shard" /\ \E i \in 1..Len(Rec) : i % K = l[2] /\ l' = <<"event", i>>
Spec == Init /\ [][Next]_l
EventOK == l[1] = "event" => (Allowed(Rec[l[2]]) \/ PrintT(<<"BAD", l[2]>>))
=============================================================================
