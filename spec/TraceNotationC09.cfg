SPECIFICATION Spec
INVARIANT EventOK09
CHECK_DEADLOCK FALSE
