CONSTANT L = 12
SPECIFICATION Spec
INVARIANT RoundTrip
INVARIANT Canonical
CHECK_DEADLOCK FALSE
