SPECIFICATION Spec
INVARIANT EventOK12
CHECK_DEADLOCK FALSE
