CONSTANT NPl = 2
CONSTANT PoolSize = 4
CONSTANT NFlops = 1
SPECIFICATION Spec
INVARIANT Symmetric
CHECK_DEADLOCK FALSE
