CONSTANT N = 6
SPECIFICATION Spec
INVARIANT Agree
CHECK_DEADLOCK FALSE
