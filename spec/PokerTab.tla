------------------------------ MODULE PokerTab ------------------------------
(***************************************************************************)
(* Fast evaluation of Poker!Eval7Def for trace validation: the 7462        *)
(* classes of Class5, tabulated once by TLC (MCPoker, which also checks    *)
(* them against the rules) and read back from gen/class5.json as two dense *)
(* arrays indexed by the base-13 code of the five sorted ranks.            *)
(* Eval7 is still the DEFINITION on concrete cards: the best class over    *)
(* the 21 five-card subsets; only Class5 is looked up instead of computed. *)
(***************************************************************************)
EXTENDS Poker, Json

C5Tab == JsonDeserialize("gen/class5.json")
Code5(h) == ((((h[1] * 13 + h[2]) * 13 + h[3]) * 13 + h[4]) * 13 + h[5]) + 1

ByRank(a, b) == a < b      \* card ids order by rank first, so sorting ids sorts ranks
Class5Tab(cs5) ==          \* cs5: five card ids in increasing order
  LET h == [i \in 1..5 |-> cs5[i] \div 4]
      fl == /\ cs5[1] % 4 = cs5[2] % 4 /\ cs5[1] % 4 = cs5[3] % 4
            /\ cs5[1] % 4 = cs5[4] % 4 /\ cs5[1] % 4 = cs5[5] % 4
  IN IF fl THEN C5Tab.fl[Code5(h)] ELSE C5Tab.nf[Code5(h)]
Eval7(cs) ==
  LET s == SortSeq(cs, ByRank)
  IN Min({Class5Tab(Drop2(s, p[1], p[2])) : p \in Pairs7})

\* the evaluator's key: flush ranks if some suit has five or more cards, else the sorted ranks
SuitCount(cs, u) == Cardinality({i \in 1..7 : cs[i] % 4 = u})
FlushSuit(cs) == IF \E u \in 0..3 : SuitCount(cs, u) >= 5 THEN CHOOSE u \in 0..3 : SuitCount(cs, u) >= 5 ELSE -1
KeyOf(cs) ==
  LET u == FlushSuit(cs) IN
  IF u >= 0 THEN [fl |-> 1, r |-> SetToSortSeq({cs[i] \div 4 : i \in {j \in 1..7 : cs[j] % 4 = u}}, <)]
  ELSE [fl |-> 0, r |-> SortSeq([i \in 1..7 |-> cs[i] \div 4], <)]
Distinct7(cs) == Cardinality({cs[i] : i \in 1..7}) = 7
=============================================================================
