------------------------------- MODULE RowFmt -------------------------------
(***************************************************************************)
(* Implementation-shaped model of one run-merging pass of                  *)
(* Display for HandRange (the same scanner is written three times in the   *)
(* code: pockets, suited and offsuit kickers under one high card).         *)
(* A row of L cells, each 0 (not a complete rank pair) or a weight 1 / 2.  *)
(* Step scans one cell and closes a run when the weight changes; Finish    *)
(* closes the run that reaches the end of the row.  Three emission cases:  *)
(* "plus" (run starts at the top of the row and is longer than one cell),  *)
(* "single", "span".                                                       *)
(* Checked for every row of every length: reading the tokens back gives    *)
(* the row (RoundTrip) and the tokens are exactly the maximal runs         *)
(* (Canonical).                                                            *)
(***************************************************************************)
EXTENDS Naturals, Sequences, FiniteSets, TLC
CONSTANT L
VARIABLES row, i, start, toks
vars == <<row, i, start, toks>>
Tok(k, s, e, w) == [k |-> k, s |-> s, e |-> e, w |-> w]
Close(s, prev, w) ==
  IF s = 1 /\ prev # 1 THEN Tok("plus", 1, prev, w)
  ELSE IF s = prev THEN Tok("single", s, prev, w)
  ELSE Tok("span", s, prev, w)
Init == /\ row \in [1..L -> 0..2] /\ i = 1 /\ start = 0 /\ toks = <<>>
Step == /\ i <= L
        /\ LET v == row[i]
               closing == IF start = 0 THEN FALSE ELSE (v = 0 \/ v # row[start])
               toks1 == IF closing THEN Append(toks, Close(start, i - 1, row[start])) ELSE toks
               start1 == IF closing THEN 0 ELSE start
           IN /\ toks' = toks1
              /\ start' = IF start1 = 0 /\ v # 0 THEN i ELSE start1
        /\ i' = i + 1
        /\ UNCHANGED row
Finish == /\ i = L + 1
          /\ toks' = IF start = 0 THEN toks
                     ELSE IF start = 1 /\ L # 1 THEN Append(toks, Tok("plus", 1, L, row[start]))
                     ELSE IF start = L THEN Append(toks, Tok("single", L, L, row[start]))
                     ELSE Append(toks, Tok("span", start, L, row[start]))
          /\ i' = L + 2 /\ start' = 0 /\ UNCHANGED row
Next == Step \/ Finish
Spec == Init /\ [][Next]_vars
\* reading the tokens back (what the parser's expansion does; a later token overwrites)
RECURSIVE Rebuild(_, _)
Rebuild(ts, acc) == IF ts = <<>> THEN acc
  ELSE LET t == Head(ts) IN Rebuild(Tail(ts), [c \in 1..L |-> IF c >= t.s /\ c <= t.e THEN t.w ELSE acc[c]])
Runs == Cardinality({c \in 1..L : row[c] # 0 /\ (IF c = 1 THEN TRUE ELSE row[c - 1] # row[c])})
Done == i = L + 2
RoundTrip == Done => Rebuild(toks, [c \in 1..L |-> 0]) = row
Canonical == Done => /\ Len(toks) = Runs
                     /\ \A n \in 1..Len(toks) : toks[n].s <= toks[n].e /\ (toks[n].k = "plus" <=> (toks[n].s = 1 /\ toks[n].e > 1))
                     /\ \A n \in 1..(Len(toks) - 1) : toks[n].e < toks[n + 1].s
                     /\ \A n \in 1..(Len(toks) - 1) : ~(toks[n].e + 1 = toks[n + 1].s /\ toks[n].w = toks[n + 1].w)
                     /\ \A n \in 1..Len(toks) : \A c \in toks[n].s..toks[n].e : row[c] = toks[n].w
=============================================================================
