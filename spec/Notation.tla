------------------------------ MODULE Notation ------------------------------
(***************************************************************************)
(* Property-level meaning of hand-range notation (C05, C10, and the oracle *)
(* for C06, C12, C17).                                                     *)
(*                                                                         *)
(* Ranks 0 = Ace .. 12 = Deuce; card id = 4 * rank + suit; a combo is a    *)
(* pair <<a, b>> of card ids with a < b.  A rank pair is a pocket pair     *)
(* (6 combos), a suited (4) or an offsuit (12) pair of different ranks,    *)
(* written high rank first.  A token is a single rank pair, 'X+' (from the *)
(* top of the row down to X), a span 'X-Y' (inclusive), or one combo.      *)
(* Weights are opaque integers (the bit pattern of the f32).               *)
(***************************************************************************)
EXTENDS Naturals, Integers, Sequences, FiniteSets, TLC, SequencesExt, FiniteSetsExt

RankCh == <<"A", "K", "Q", "J", "T", "9", "8", "7", "6", "5", "4", "3", "2">>
SuitCh == <<"s", "h", "d", "c">>
IsRank(c) == \E i \in 1..13 : RankCh[i] = c
IsSuit(c) == \E i \in 1..4 : SuitCh[i] = c
RankCode(c) == (CHOOSE i \in 1..13 : RankCh[i] = c) - 1
SuitCode(c) == (CHOOSE i \in 1..4 : SuitCh[i] = c) - 1
Card(r, s) == 4 * r + s
Pair(a, b) == IF a < b THEN <<a, b>> ELSE <<b, a>>
AllCombos == {p \in (0..51) \X (0..51) : p[1] < p[2]}
One == 1065353216            \* bit pattern of 1.0f32: the weight of a token without ':weight'

\* rank pairs: [t |-> "P", h |-> r, k |-> r]; [t |-> "S" | "O", h |-> high, k |-> kicker] with h < k
Pocket(r) == [t |-> "P", h |-> r, k |-> r]
Kick(t, h, k) == [t |-> t, h |-> h, k |-> k]
RPs == {Pocket(r) : r \in 0..12} \cup {rp \in [t : {"S", "O"}, h : 0..11, k : 1..12] : rp.h < rp.k}
Combos(rp) ==
  IF rp.t = "P" THEN {Pair(Card(rp.h, a), Card(rp.h, b)) : a, b \in 0..3} \ {<<Card(rp.h, a), Card(rp.h, a)>> : a \in 0..3}
  ELSE IF rp.t = "S" THEN {Pair(Card(rp.h, a), Card(rp.k, a)) : a \in 0..3}
  ELSE {Pair(Card(rp.h, a), Card(rp.k, b)) : a, b \in 0..3} \ {Pair(Card(rp.h, a), Card(rp.k, a)) : a \in 0..3}

\* tokens: [kind |-> "single" | "plus", rp], [kind |-> "span", rp, e], [kind |-> "cards", c], [kind |-> "bad"]
Bad == [kind |-> "bad"]
Denote(tok) ==
  CASE tok.kind = "cards"  -> {tok.c}
    [] tok.kind = "single" -> Combos(tok.rp)
    [] tok.kind = "plus"   -> IF tok.rp.t = "P" THEN UNION {Combos(Pocket(r)) : r \in 0..tok.rp.h}
                              ELSE UNION {Combos(Kick(tok.rp.t, tok.rp.h, j)) : j \in (tok.rp.h + 1)..tok.rp.k}
    [] tok.kind = "span"   -> IF tok.rp.t = "P" THEN UNION {Combos(Pocket(r)) : r \in tok.rp.h..tok.e}
                              ELSE UNION {Combos(Kick(tok.rp.t, tok.rp.h, j)) : j \in tok.rp.k..tok.e}
    [] OTHER -> {}

(***************************************************************************)
(* Reading a WELL-FORMED token body (the part before ':weight'), as a      *)
(* sequence of one-character strings.  Anything else is "bad": the         *)
(* properties leave open whether an implementation accepts it.             *)
(* The 3,796 well-formed bodies: 13 pockets, 156 + 156 singles (either     *)
(* rank order), 13 + 78 + 78 plus tokens, 78 pocket spans, 286 + 286       *)
(* kicker spans, 2,652 ordered pairs of different cards.                   *)
(***************************************************************************)
SO(c) == IF c = "s" THEN "S" ELSE "O"
ParseBody(s) ==
  LET n == Len(s)
      R(i) == RankCode(s[i])
      rk(i) == i <= n /\ IsRank(s[i])
      so(i) == i <= n /\ s[i] \in {"s", "o"}
      KP(i) == Kick(SO(s[i + 2]), Min({R(i), R(i + 1)}), Max({R(i), R(i + 1)}))
  IN IF n = 2 /\ rk(1) /\ rk(2) /\ s[1] = s[2] THEN [kind |-> "single", rp |-> Pocket(R(1))]
     ELSE IF n = 3 /\ rk(1) /\ rk(2) /\ s[1] = s[2] /\ s[3] = "+" THEN [kind |-> "plus", rp |-> Pocket(R(1))]
     ELSE IF n = 3 /\ rk(1) /\ rk(2) /\ s[1] # s[2] /\ so(3) THEN [kind |-> "single", rp |-> KP(1)]
     ELSE IF n = 4 /\ rk(1) /\ rk(2) /\ s[1] # s[2] /\ so(3) /\ s[4] = "+" /\ R(1) < R(2)
          THEN [kind |-> "plus", rp |-> KP(1)]
     ELSE IF n = 5 /\ rk(1) /\ rk(2) /\ s[3] = "-" /\ rk(4) /\ rk(5) /\ s[1] = s[2] /\ s[4] = s[5] /\ R(1) < R(4)
          THEN [kind |-> "span", rp |-> Pocket(R(1)), e |-> R(4)]
     ELSE IF n = 7 /\ rk(1) /\ rk(2) /\ so(3) /\ s[4] = "-" /\ rk(5) /\ rk(6) /\ so(7)
             /\ s[1] = s[5] /\ s[3] = s[7] /\ R(1) < R(2) /\ R(2) < R(6)
          THEN [kind |-> "span", rp |-> KP(1), e |-> R(6)]
     ELSE IF n = 4 /\ rk(1) /\ IsSuit(s[2]) /\ rk(3) /\ IsSuit(s[4])
             /\ Card(R(1), SuitCode(s[2])) # Card(R(3), SuitCode(s[4]))
          THEN [kind |-> "cards", c |-> Pair(Card(R(1), SuitCode(s[2])), Card(R(3), SuitCode(s[4])))]
     ELSE Bad

\* text of a token in the form the library prints (high rank first, 'X+', 'X-Y')
RpText(rp) == IF rp.t = "P" THEN <<RankCh[rp.h + 1], RankCh[rp.h + 1]>>
              ELSE <<RankCh[rp.h + 1], RankCh[rp.k + 1], (IF rp.t = "S" THEN "s" ELSE "o")>>
CardTextS(c) == <<RankCh[(c \div 4) + 1], SuitCh[(c % 4) + 1]>>
TokText(tok) ==
  CASE tok.kind = "single" -> RpText(tok.rp)
    [] tok.kind = "plus"   -> RpText(tok.rp) \o <<"+">>
    [] tok.kind = "span"   -> RpText(tok.rp) \o <<"-">> \o RpText(IF tok.rp.t = "P" THEN Pocket(tok.e) ELSE Kick(tok.rp.t, tok.rp.h, tok.e))
    [] tok.kind = "cards"  -> CardTextS(tok.c[1]) \o CardTextS(tok.c[2])

\* a range is a function from a set of combos to weights; a token list is read left to right, later tokens overwrite
Put(m, cs, w) == [c \in DOMAIN m \cup cs |-> IF c \in cs THEN w ELSE m[c]]
Empty == [c \in {} |-> 0]
RECURSIVE RangeOf(_, _)
RangeOf(toks, acc) ==      \* toks: sequence of [tok |-> token, w |-> weight]
  IF toks = <<>> THEN acc ELSE RangeOf(Tail(toks), Put(acc, Denote(Head(toks).tok), Head(toks).w))

\* C10: what every parsed range must satisfy
ValidWeight(w) == w >= 0 /\ w <= One
ValidRange(m) == \A c \in DOMAIN m : c[1] # c[2] /\ c[1] \in 0..51 /\ c[2] \in 0..51 /\ ValidWeight(m[c])
=============================================================================
