CONSTANT N = 3
CONSTANT Calls = 4
SPECIFICATION Spec
PROPERTY OneMoves
INVARIANT Emit
INVARIANT Count
CHECK_DEADLOCK FALSE
