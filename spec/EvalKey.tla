------------------------------- MODULE EvalKey -------------------------------
(***************************************************************************)
(* Implementation-shaped model of MadeHand::from([Card; 7]):               *)
(*                                                                         *)
(*  Scan  - find_flush_suit as a state machine: visit the cards in the     *)
(*          order given, count per suit, stop at the first count of five.  *)
(*          Invariant: whatever the order, the result is the unique suit   *)
(*          holding five or more of the seven cards, or none.              *)
(*  Lemma - the key abstraction the evaluator is built on: the best class  *)
(*          of seven concrete cards (the definition, Eval7) depends only   *)
(*          on the key - the ranks of the flush suit if there is one, else *)
(*          the multiset of ranks - and equals the key-level best class    *)
(*          exported by MCPoker.  Checked on every 7-subset of a reduced   *)
(*          deck (constant DeckRanks x 4 suits).                           *)
(***************************************************************************)
EXTENDS PokerTab, IOUtils

CONSTANT DeckRanks          \* e.g. {0, 9, 10, 11, 12}: ace plus the wheel cards

\* ------------------------------------------------------------------ Scan
VARIABLES suits, i, cnt, res, hand
svars == <<suits, i, cnt, res, hand>>
ScanInit == /\ suits \in [1..7 -> 0..3] /\ i = 1 /\ cnt = [u \in 0..3 |-> 0] /\ res = -1 /\ hand = <<>>
ScanStep == /\ i <= 7 /\ res = -1
            /\ LET u == suits[i] IN
               /\ cnt' = [cnt EXCEPT ![u] = @ + 1]
               /\ res' = IF cnt[u] + 1 >= 5 THEN u ELSE -1
            /\ i' = i + 1 /\ UNCHANGED <<suits, hand>>
ScanSpec == ScanInit /\ [][ScanStep]_svars
ScanDone == i = 8 \/ res # -1
Holding(u) == Cardinality({j \in 1..7 : suits[j] = u})
ScanCorrect == ScanDone =>
  IF \E u \in 0..3 : Holding(u) >= 5 THEN res = (CHOOSE u \in 0..3 : Holding(u) >= 5) ELSE res = -1
ScanNoEarlyMiss == (res = -1 /\ i <= 7) => \A u \in 0..3 : cnt[u] < 5

\* ------------------------------------------------------------------ Lemma
KeyRecs == SelectSeq(ndJsonDeserialize("gen/keys.ndjson"), LAMBDA x : \A j \in DOMAIN x.r : x.r[j] \in DeckRanks)
KeyTab == [k \in {[fl |-> (IF KeyRecs[j].k = "F" THEN 1 ELSE 0), r |-> KeyRecs[j].r] : j \in 1..Len(KeyRecs)} |->
             LET j == CHOOSE x \in 1..Len(KeyRecs) : KeyRecs[x].r = k.r /\ (KeyRecs[x].k = "F") = (k.fl = 1) IN KeyRecs[j].c]
Deck == {4 * r + u : r \in DeckRanks, u \in 0..3}
LemmaInit == hand = <<>> /\ suits = <<>> /\ i = 0 /\ cnt = <<>> /\ res = -1
LemmaNext == /\ Len(hand) < 7
             /\ \E c \in Deck : (IF hand = <<>> THEN TRUE ELSE c > hand[Len(hand)]) /\ hand' = Append(hand, c)
             /\ UNCHANGED <<suits, i, cnt, res>>
LemmaSpec == LemmaInit /\ [][LemmaNext]_svars
AbstractionLemma == Len(hand) = 7 => Eval7(hand) = KeyTab[KeyOf(hand)]
=============================================================================
