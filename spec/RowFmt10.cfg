CONSTANT L = 10
SPECIFICATION Spec
INVARIANT RoundTrip
INVARIANT Canonical
CHECK_DEADLOCK FALSE
