CONSTANT L = 3
SPECIFICATION Spec
INVARIANT RoundTrip
INVARIANT Canonical
CHECK_DEADLOCK FALSE
