CONSTANT L = 5
SPECIFICATION Spec
INVARIANT RoundTrip
INVARIANT Canonical
CHECK_DEADLOCK FALSE
