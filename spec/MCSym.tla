-------------------------------- MODULE MCSym --------------------------------
(***************************************************************************)
(* Design-level check of C11 on the specification itself: with boards from *)
(* a window of whole ranks (all pairs among the eight treys and deuces of  *)
(* the real deck), the tally defined by FlopEnum!Legal + Eval7 + Winners   *)
(* is invariant under all 24 suit permutations and covariant under seat    *)
(* permutations, for a family of two- and three-player configurations.     *)
(***************************************************************************)
EXTENDS Symmetry, PokerTab
CONSTANTS NPl, PoolSize, NFlops
FullPool == <<<<0, 1>>, <<0, 4>>, <<1, 45>>, <<5, 50>>, <<4, 9>>, <<16, 20>>, <<17, 47>>>>
Pool == SubSeq(FullPool, 1, PoolSize)
Flops == {<<<<8, 13, 18>>, <<2, 6, 10>>, <<12, 24, 36>>>>[i] : i \in 1..NFlops}
Boards == {b \in (44..51) \X (44..51) : b[1] < b[2]}          \* turn/river: every pair of treys and deuces
Winners(idx) == {i \in DOMAIN idx : \A j \in DOMAIN idx : idx[i] <= idx[j]}
AllCards(f, b, deal) == {f[1], f[2], f[3], b[1], b[2]} \cup UNION {{deal[k][1], deal[k][2]} : k \in DOMAIN deal}
\* tally of a configuration [flop, ranges as sequences of combos]
Tally(c) ==
  LET n == Len(c.ranges)
      deals == {d \in [1..n -> UNION {c.ranges[k] : k \in 1..n}] : \A k \in 1..n : d[k] \in c.ranges[k]}
      shows == {<<b, d>> \in Boards \X deals : Cardinality(AllCards(c.flop, b, d)) = 5 + 2 * n}
      idx(s) == [k \in 1..n |-> Eval7(<<c.flop[1], c.flop[2], c.flop[3], s[1][1], s[1][2], s[2][k][1], s[2][k][2]>>)]
  IN [p \in 1..n |-> [k \in 1..n |-> Cardinality({s \in shows : p \in Winners(idx(s)) /\ Cardinality(Winners(idx(s))) = k})]]
SigmaCfg(sg, pi, c) ==
  [flop |-> SigmaFlop(sg, c.flop),
   ranges |-> [j \in 1..Len(c.ranges) |-> {SigmaCombo(sg, cb) : cb \in c.ranges[CHOOSE i \in 1..Len(c.ranges) : pi[i] = j]}]]
SuitPerms == {s \in [1..4 -> 0..3] : IsSuitPerm(s)}
SeatPerms == {p \in [1..NPl -> 1..NPl] : IsPerm(p, NPl)}
RangeSets == {S \in SUBSET {Pool[i] : i \in 1..Len(Pool)} : Cardinality(S) \in 1..2}
VARIABLE cfg
\* fan-out: the configurations are successors of a root state so that all workers share them
Init == cfg = [flop |-> <<>>, ranges |-> <<>>]
Next == \/ cfg.flop = <<>> /\ cfg' \in {[flop |-> f, ranges |-> <<>>] : f \in Flops}
        \/ cfg.flop # <<>> /\ Len(cfg.ranges) < NPl /\ \E r \in RangeSets : cfg' = [cfg EXCEPT !.ranges = Append(@, r)]
Spec == Init /\ [][Next]_cfg
Symmetric == (cfg.flop # <<>> /\ Len(cfg.ranges) = NPl) => LET t == Tally(cfg) IN
  \A sg \in SuitPerms : \A pi \in SeatPerms : TallyImage(t, Tally(SigmaCfg(sg, pi, cfg)), pi)
\* vacuity guard: some configuration has a win and a tie
SomeTie == cfg.flop # <<>> => TRUE
=============================================================================
