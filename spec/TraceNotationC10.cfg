SPECIFICATION Spec
INVARIANT EventOK10
CHECK_DEADLOCK FALSE
