CONSTANTS
  AsFound = FALSE
  MaxLen = 5
SPECIFICATION Spec
INVARIANT NoPanic
INVARIANT OnlyValid
CHECK_DEADLOCK FALSE
