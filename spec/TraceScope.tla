------------------------------ MODULE TraceScope ------------------------------
(***************************************************************************)
(* Trace validation of scoped evaluators (C04) and of the example's work   *)
(* splitter (C16) at real size (49-card deck).                             *)
(*   full    - the unscoped evaluator of a configuration drained: items    *)
(*             [turn card, river card, hole cards ...] in the order yielded*)
(*   scoped  - the same configuration (ref = line of its full event) with  *)
(*             scope() called one or more times (the last call counts),    *)
(*             drained, then `after` further next() calls                  *)
(*   chain   - a list of cut points; one scoped run per consecutive pair   *)
(*   scopes  - calculate_scopes(n): the cut points, run-length encoded     *)
(* Positions are computed here from the card ids: the deck is 0..51 minus  *)
(* the flop in increasing order, so the index of card c is c minus the     *)
(* number of flop cards below it.                                          *)
(***************************************************************************)
EXTENDS Scopes, Json, IOUtils

Rec == ndJsonDeserialize(IOEnv.TRACE)
VARIABLE l
IdxOfCard(flop, c) == c - Cardinality({i \in 1..3 : flop[i] < c})
PosOfItem(flop, it) == <<IdxOfCard(flop, it[1]), IdxOfCard(flop, it[2])>>
AsRun(flop, items) == [i \in 1..Len(items) |-> [pos |-> PosOfItem(flop, items[i]), it |-> items[i]]]
Ran(s) == {s[i] : i \in DOMAIN s}

\* a scoped run equals the window of the full run: same positions in the same order, and at every position the
\* same showdowns (the order inside one position is not fixed by the property)
SameRun(a, b) ==
  /\ Len(a) = Len(b)
  /\ \A i \in 1..Len(a) : a[i].pos = b[i].pos
  /\ Ran(a) = Ran(b)

FullOK(e) == LET run == AsRun(e.flop, e.items) IN
  /\ Monotone(run) /\ \A i \in 1..Len(run) : IsPos(run[i].pos)
  /\ e.after = 0                                    \* exhausted stays exhausted

ScopedOK(e) ==
  LET f == Rec[e.ref]
      full == AsRun(f.flop, f.items)
      run == AsRun(f.flop, e.items)
      sc == e.scopes[Len(e.scopes)]                 \* repeated scope() calls: the last one counts
      from == <<sc[1], sc[2]>>  to == <<sc[3], sc[4]>>
  IN /\ IsCut(from) /\ IsCut(to) /\ PosLE(from, to)   \* the harness only asks for valid scopes
     /\ SameRun(run, Window(full, from, to))
     /\ e.after = 0

ChainOK(e) ==
  LET f == Rec[e.ref]
      full == AsRun(f.flop, f.items)
      ch == [i \in 1..(Len(e.cuts) - 1) |-> [from |-> <<e.cuts[i][1], e.cuts[i][2]>>, to |-> <<e.cuts[i + 1][1], e.cuts[i + 1][2]>>]]
      runs == [i \in 1..Len(e.runs) |-> AsRun(f.flop, e.runs[i])]
  IN /\ ValidChain(ch) /\ Len(e.runs) = Len(ch)
     /\ \A i \in 1..Len(ch) : SameRun(runs[i], Window(full, ch[i].from, ch[i].to))
     /\ SameRun(Concat(runs), full)                 \* every showdown of the full enumeration exactly once

\* C16: calculate_scopes(n).  The n scopes are logged as two run-length encoded point lists, the start points
\* and the end points ([turn, river, count], adjacent equal points merged), so that any n fits in ~2400 entries.
Pt(x) == <<x[1], x[2]>>
Total(rle) == FoldSet(LAMBDA i, acc : acc + rle[i][3], 0, 1..Len(rle))
\* the start points a chain must have, given its end points: (0,1), then every end point but the last
ShiftRLE(tos) ==
  LET n == Len(tos)
      body == IF tos[n][3] = 1 THEN SubSeq(tos, 1, n - 1) ELSE [tos EXCEPT ![n] = <<tos[n][1], tos[n][2], tos[n][3] - 1>>]
  IN IF body # <<>> /\ Pt(body[1]) = <<0, 1>> THEN [body EXCEPT ![1] = <<0, 1, body[1][3] + 1>>]
     ELSE <<<<0, 1, 1>>>> \o body
SplitOK(e) ==
  LET n == Len(e.tos) IN
  /\ n >= 1 /\ e.n >= 1
  /\ Total(e.tos) = e.n /\ Total(e.froms) = e.n /\ e.len = e.n        \* one scope per worker
  /\ \A i \in 1..n : IsCut(Pt(e.tos[i])) /\ e.tos[i][3] >= 1           \* only valid positions
  /\ \A i \in 1..(n - 1) : PosLT(Pt(e.tos[i]), Pt(e.tos[i + 1]))        \* never steps backwards
  /\ Pt(e.tos[n]) = End                                                 \* ends at (48,49)
  /\ e.froms = ShiftRLE(e.tos)                                          \* starts at (0,1); each scope starts where the previous ended

Allowed(e) ==
  CASE e.op = "full" -> FullOK(e)
    [] e.op = "scoped" -> ScopedOK(e)
    [] e.op = "chain" -> ChainOK(e)
    [] e.op = "scopes" -> SplitOK(e)
    [] OTHER -> FALSE

K == 64
Init == l = <<"root">>
Next == \/ l = <<"root">> /\ \E k \in 0..(K - 1) : l' = <<"shard", k>>
        \/ l[1] = "shard" /\ \E i \in 1..Len(Rec) : i % K = l[2] /\ l' = <<"event", i>>
Spec == Init /\ [][Next]_l
EventOK == l[1] = "event" => (Allowed(Rec[l[2]]) \/ PrintT(<<"BAD", l[2]>>))
=============================================================================
