CONSTANT L = 11
SPECIFICATION Spec
INVARIANT RoundTrip
INVARIANT Canonical
CHECK_DEADLOCK FALSE
